"""Launch one atheris campaign (a shard) as a subprocess and collect its results."""

import json
import os
import shutil
import subprocess
import sys

from vp import core


def seed_inputs(prop, kind):
    """Starting corpus: 'valid' = frames recorded in the repository's test logs
    plus one nominal frame per definition, each behind a configuration byte;
    'empty' = nothing (libFuzzer starts from scratch)."""
    if kind == "empty":
        return []
    from vp.gen import streams
    from vp.props import common as C
    from vp.props import c16
    from vp.ref import grammar as G

    out = []
    corp = streams.corpus()
    for i, f in enumerate(corp["ubx"][:120]):
        out.append(bytes([0x20 | (i % 4)]) + (f if i % 4 != 1 else f[2:4] + f[6:-2]))
    for f in corp["nmea"][:40] + corp["rtcm"][:30]:
        out.append(bytes([0x22]) + f)
    if corp["ubx"] and corp["nmea"] and corp["rtcm"]:
        out.append(bytes([0x22]) + corp["ubx"][0] + corp["nmea"][0] + corp["rtcm"][0] + corp["ubx"][-1])
    for t in C.cat()[0]:
        if G.audit_fatal(t.defn):
            continue
        p = G.encode(c16.nominal_nodes(t))
        out.append(bytes([0x21 | (t.mode << 2) | 0x10]) + t.clsid + p)
    return out


def run_campaign(prop, name, seed, runs, corpus_kind, known, max_len=2048, timeout=7200):
    base = os.path.join(core.OUT, "fuzz", prop, name)
    shutil.rmtree(base, ignore_errors=True)
    corpus = os.path.join(base, "corpus")
    os.makedirs(corpus)
    for i, data in enumerate(seed_inputs(prop, corpus_kind)):
        with open(os.path.join(corpus, f"seed{i:04d}"), "wb") as fh:
            fh.write(data)
    env = dict(os.environ, PYTHONPATH=os.pathsep.join([core.VERIF, core.REPO_SRC, core.DEPS]),
               PYTHONHASHSEED="0")
    cmd = [sys.executable, "-m", "vp.fuzz.target", prop, base, json.dumps(sorted(known)), corpus,
           f"-runs={runs}", f"-seed={seed % (2 ** 31 - 1) + 1}", f"-max_len={max_len}", "-verbosity=0",
           "-print_final_stats=0", "-timeout=120", "-rss_limit_mb=4096"]
    r = subprocess.run(cmd, cwd=core.VERIF, env=env, capture_output=True, text=True, timeout=timeout)
    stats, viols = {}, []
    try:
        stats = json.load(open(os.path.join(base, "stats.json")))
    except (OSError, ValueError):
        pass
    vp = os.path.join(base, "violations.jsonl")
    if os.path.exists(vp):
        for ln in open(vp):
            if ln.strip():
                viols.append(json.loads(ln))
    err = None
    if r.returncode != 0 and not viols:
        err = f"atheris campaign {name} exited {r.returncode}: {(r.stderr or r.stdout)[-400:]}"
    ncorpus = len(os.listdir(corpus))
    shutil.rmtree(corpus, ignore_errors=True)
    return stats, viols, err, ncorpus
