"""atheris / libFuzzer targets with the semantic oracle inside the target.

Run as:  python -m vp.fuzz.target <C07|C08|C13> <outdir> <known-keys-json> [libFuzzer args...]

Input layout: byte 0 selects configuration and route, the rest is data.
  C08: route = b0 & 3  (0 raw bytes -> parse, 1 class/ID/payload re-framed with
       correct length and checksum -> parse, 2/3 byte stream -> reader)
       msgmode = (b0 >> 2) & 3, parsebitfield = (b0 >> 4) & 1,
       validate = (b0 >> 5) & 1, quitonerror = (b0 >> 6) % 3
  C07: whole rest is a stream; options from b0 (quitonerror in {IGNORE, LOG}).
Violations are appended to <outdir>/violations.jsonl as they are found (one per
new key) and the run continues, so that several root causes can be collected;
<outdir>/stats.json is rewritten periodically (atexit does not run under atheris).
"""

import json
import os
import sys


def main():
    prop, outdir, known_json = sys.argv[1], sys.argv[2], sys.argv[3]
    fargs = sys.argv[4:]
    from vp import core

    core.setup_paths()
    import atheris

    with atheris.instrument_imports(include=["pyubx2"]):
        import pyubx2  # noqa: F401
    from vp.props import c07, c08
    from vp.ref import codec

    known = set(json.loads(known_json))
    found = set()
    stats = {"runs": 0, "nontrivial": 0, "items": 0, "accepted": 0, "rejected": 0}
    os.makedirs(outdir, exist_ok=True)
    vio = open(os.path.join(outdir, "violations.jsonl"), "a")

    def report(key, detail, case):
        if key in known or key in found:
            stats["known_hits"] = stats.get("known_hits", 0) + (1 if key in known else 0)
            return
        found.add(key)
        vio.write(json.dumps({"key": key, "detail": detail, "case": core.jenc(case)}) + "\n")
        vio.flush()

    def flush_stats():
        with open(os.path.join(outdir, "stats.json.tmp"), "w") as fh:
            json.dump(stats, fh)
        os.replace(os.path.join(outdir, "stats.json.tmp"), os.path.join(outdir, "stats.json"))

    import re

    digits = re.compile(rb"[0-9]{5,}")

    def hazardous(rest):
        # an NMEA count field with a large number makes pynmeagps loop that many
        # times inside one parse call (dependency hazard, see DESIGN.md 7.2); such
        # inputs are skipped and counted - the oracle has no clock to judge them
        if b"$" in rest and digits.search(rest):
            stats["skipped_nmea_big_number"] = stats.get("skipped_nmea_big_number", 0) + 1
            return True
        return False

    def one_c08(data):
        if not data or hazardous(data):
            return
        b0, rest = data[0], bytes(data[1:])
        route, mode, bf, validate, qe = b0 & 3, (b0 >> 2) & 3, (b0 >> 4) & 1, (b0 >> 5) & 1, (b0 >> 6) % 3
        if route in (0, 1):
            if route == 1:
                if len(rest) < 2:
                    return
                frame = codec.ubx_frame(rest[0:1], rest[1:2], rest[2:])
                stats["nontrivial"] += 1
            else:
                frame = rest
            o, viol = c08.judge_parse(frame, mode, validate, bf)
            stats["accepted" if o == "accepted" else "rejected"] += 1
            for k, d in viol:
                report(k, d, {"kind": "frame", "frame": frame, "mode": mode, "validate": validate, "bf": bf})
        else:
            opts = {"msgmode": mode, "validate": validate, "parsebitfield": bf, "quitonerror": qe,
                    "protfilter": 7 if route == 2 else (rest[0] & 7 if rest else 7), "parsing": True}
            if any(x in rest for x in (0xB5, 0x24, 0xD3)):
                stats["nontrivial"] += 1
            for k, d in c08.judge_stream(rest, opts):
                report(k, d, {"kind": "stream", "data": rest, "opts": opts})

    def one_c07(data):
        if not data or hazardous(data):
            return
        b0, rest = data[0], bytes(data[1:])
        opts = {"msgmode": b0 & 3, "validate": (b0 >> 2) & 1, "parsebitfield": (b0 >> 3) & 1,
                "quitonerror": (b0 >> 4) & 1, "parsing": bool((b0 >> 5) & 1) or True,
                "protfilter": 7 if not (b0 >> 6) & 1 else ((b0 >> 5) & 7) or 7}
        viol, nitems, _tr = c07.judge(rest, opts)
        stats["items"] += nitems
        if any(x in rest for x in (0xB5, 0x24, 0xD3)):
            stats["nontrivial"] += 1
        for k, d in viol:
            report(k, d, {"kind": "tiny", "data": rest, "opts": opts})

    from vp.props import c13

    state0 = {}

    def one_c13(data):
        """Any frame, any mode: processing it leaves the package's tables and module-level
        constants as they were (C13's clause; the comparison is against the state before
        the first input - once something has changed, every new kind of change is reported)."""
        if len(data) < 3 or hazardous(data):
            return
        import pyubx2

        if not state0:
            state0.update(c13.table_digests())
        b0, rest = data[0], bytes(data[1:])
        mode, bf = (b0 >> 2) & 3, (b0 >> 4) & 1
        frame = codec.ubx_frame(rest[0:1], rest[1:2], rest[2:]) if b0 & 1 else rest
        try:
            m = pyubx2.UBXReader.parse(frame, msgmode=mode, parsebitfield=bf, validate=(b0 >> 5) & 1)
            str(m)
            stats["accepted"] += 1
            stats["nontrivial"] += 1
        except Exception:  # noqa - acceptance is not this oracle's business
            stats["rejected"] += 1
        if True:
            now = c13.table_digests() if stats["runs"] % 5000 == 0 else c13.constants_digests()
            for k_ in now:
                if now[k_] != state0.get(k_):
                    report(f"C13|module-state-changed|{k_}", f"{k_} differs after parsing {frame[:40].hex()} (mode {mode})",
                           {"kind": "history", "ops": [["parse", frame, mode, bf]]})
                    state0[k_] = now[k_]

    fn = {"C08": one_c08, "C07": one_c07, "C13": one_c13}[prop]

    def test_one(data):
        stats["runs"] += 1
        fn(data)
        if stats["runs"] % 2000 == 0:
            flush_stats()

    import logging

    logging.disable(logging.CRITICAL)
    flush_stats()
    atheris.Setup([sys.argv[0]] + fargs, test_one)
    try:
        atheris.Fuzz()
    finally:
        flush_stats()


if __name__ == "__main__":
    main()
