"""CLI:  python -m vp.run <Cxx> [--tier quick|thorough] [--replay FILE] [--seed N]

exit 0  property held on everything explored (KNOWN-FINDING lines possible)
exit 1  VIOLATION property=<id> replay=<path>  (a violation not listed as known)
exit 2  harness error / inconclusive (never reported as a violation)
"""

import glob
import importlib
import json
import os
import sys
import traceback

from vp import core


def _args(argv):
    a = {"prop": None, "tier": os.environ.get("VERIF_TIER", "quick"), "replay": None,
         "seed": os.environ.get("VERIF_SEED", "1"), "collect": False}
    it = iter(argv)
    for x in it:
        if x == "--tier":
            a["tier"] = next(it)
        elif x == "--replay":
            a["replay"] = next(it)
        elif x == "--seed":
            a["seed"] = next(it)
        elif x == "--collect":
            a["collect"] = True
        elif a["prop"] is None:
            a["prop"] = x.upper()
        else:
            raise SystemExit(f"unexpected argument {x}")
    if a["prop"] is None:
        raise SystemExit(__doc__)
    if a["tier"] not in ("quick", "thorough"):
        a["tier"] = "quick"
    try:
        a["seed"] = int(a["seed"])
    except ValueError:
        a["seed"] = core.derive(a["seed"])
    return a


def _replay_case(mod, case):
    out = core.run_with_history(core.jdec(case), mod.check)
    return list(out.viol)


def main(argv):
    core.bootstrap(argv)
    a = _args(argv)
    prop, tier, seed = a["prop"], a["tier"], a["seed"]
    mod = importlib.import_module(f"vp.props.{prop.lower()}")
    entries = core.load_known(prop)
    known = core.open_keys(entries)
    if a["collect"]:
        known = set(known)

    # ---- single replay -------------------------------------------------
    if a["replay"]:
        with open(a["replay"]) as fh:
            rec = json.load(fh)
        viol = _replay_case(mod, rec["case"])
        bad = [(k, d) for k, d in viol if k not in known]
        for k, d in viol:
            print(f"replay: {k}: {d}")
        if bad:
            print(f"VIOLATION property={prop} replay={a['replay']}")
            return 1
        print(f"replay: no unlisted violation ({len(viol)} listed)")
        return 0

    t0 = core.now()
    violations = []  # (key, replay path)
    errors = []
    lines = []

    # ---- known findings: reproduce each open entry ----------------------
    reproduced = []
    for e in entries:
        if e.get("status") != "open":
            continue
        try:
            viol = _replay_case(mod, e["repro"])
        except Exception:  # noqa
            errors.append(f"known-finding repro crashed: {e['key']}: {traceback.format_exc()}")
            continue
        if any(k == e["key"] for k, _ in viol):
            lines.append(f"KNOWN-FINDING: property={prop} {e['key']} - {e['what']}")
            reproduced.append(e["key"])
            for k, d in viol:
                if k != e["key"] and k not in known:
                    path = core.write_replay(prop, {"key": k, "case": e["repro"], "detail": d})
                    violations.append((k, path))
        else:
            print(f"NOTE: listed finding no longer reproduces: {e['key']}", file=sys.stderr)

    # ---- regression tier: committed shrunk failures ---------------------
    regress_n = 0
    for path in sorted(glob.glob(os.path.join(core.REGRESS, prop, "*.json"))):
        with open(path) as fh:
            rec = json.load(fh)
        regress_n += 1
        try:
            viol = _replay_case(mod, rec["case"])
        except Exception:  # noqa
            errors.append(f"regress replay crashed: {path}: {traceback.format_exc()}")
            continue
        for k, d in viol:
            if k not in known:
                violations.append((k, path))

    # ---- generated search ------------------------------------------------
    specs = mod.plan(tier, seed)
    for i, s in enumerate(specs):
        s.setdefault("name", f"s{i}")
    ctx = {"tier": tier, "seed": seed, "known": sorted(known)}
    results = core.run_shards(mod.__name__, specs, ctx)
    acc = core.Acc()
    for r in results:
        if "fatal" in r:
            errors.append(f"shard {r.get('shard')} crashed:\n{r['fatal']}")
            continue
        acc.merge_dict(r)
    errors.extend(acc.errors)
    seen = {k for k, _ in violations}
    for v in acc.violations:
        if v["key"] in seen:
            continue
        seen.add(v["key"])
        violations.append((v["key"], core.write_replay(prop, v)))

    # ---- coverage floors -------------------------------------------------
    floors = mod.floors(tier) if hasattr(mod, "floors") else {}
    missed = {c: (acc.classes.get(c, 0), n) for c, n in floors.items() if acc.classes.get(c, 0) < n}
    if missed and not violations:
        errors.append(f"coverage floor missed (class: got, wanted): {missed}")

    distinct = len(acc.nontrivial) + acc.nontrivial_extra
    coverage = {
        "evaluations": acc.evaluations,
        "distinct_nontrivial": distinct,
        "rule": mod.RULE,
        "samples": acc.samples[:10] or ["(no non-trivial sample recorded)"],
        "classes": dict(sorted(acc.classes.items())),
        "skipped": dict(sorted(acc.skipped.items())),
        "excluded_known": dict(sorted(acc.known_hits.items())),
        "known_findings_reproduced": reproduced,
        "regress_replayed": regress_n,
        "shards": len(specs),
        "exhaustive": bool(getattr(mod, "EXHAUSTIVE", False)),
        "technique": mod.TECHNIQUE,
        "floors": floors,
        "harness_errors": errors[:5],
    }
    coverage.update(acc.extra)
    wall = core.now() - t0
    core.write_evidence(prop, tier, seed, mod.LEVEL, coverage, wall, len(violations),
                        list(mod.ASSUMPTIONS))

    for ln in lines:
        print(ln)
    print(f"{prop} {tier} seed={seed}: {acc.evaluations} cases, {distinct} distinct non-trivial, "
          f"{sum(acc.known_hits.values())} hits on listed findings, {wall:.1f}s")
    if violations:
        for k, path in violations:
            print(f"  violation key: {k}")
            print(f"VIOLATION property={prop} replay={path}")
        return 1
    if errors:
        for e in errors:
            print(f"HARNESS-ERROR: {e}", file=sys.stderr)
        return 2
    return 0


if __name__ == "__main__":
    try:
        rc = main(sys.argv[1:])
    except core.HarnessError as err:
        print(f"HARNESS-ERROR: {err}", file=sys.stderr)
        rc = 2
    except SystemExit:
        raise
    except BaseException:  # noqa
        traceback.print_exc()
        rc = 2
    sys.exit(rc)
