"""Hypothesis strategies for UBX frames: (class, ID, payload) cases built from
the definition catalogue, plus undocumented IDs and unknown classes."""

from hypothesis import strategies as st

from vp.gen import layout
from vp.ref import catalog
from vp.ref import grammar as G

PAYLOAD_KINDS = ("exact", "short", "long", "random", "empty", "mutated", "nested")


@st.composite
def payload_for(draw, target, kind=None, max_payload=4000, big_counts=False):
    """-> (kind, payload bytes) for a definition target."""
    if kind is None:
        kind = draw(st.sampled_from(PAYLOAD_KINDS))
    if G.audit_fatal(target.defn) and kind not in ("empty", "random"):
        kind = "random"  # definition outside the grammar (C16's business)
    if kind == "empty":
        return kind, b""
    if kind == "nested":
        # the payload is itself a complete frame - of the same message type, or of another
        from vp.ref import codec as _c

        inner = draw(st.binary(max_size=12))
        cid = target.clsid if draw(st.booleans()) else draw(st.sampled_from([b"\x05\x01", b"\x06\x01", b"\x01\x07"]))
        return "random", _c.ubx_frame(cid[0:1], cid[1:2], inner)
    if kind == "random":
        n = draw(st.one_of(st.integers(0, 12), st.integers(0, 2 * G.min_size(target.defn) + 8)))
        return kind, draw(st.binary(min_size=n, max_size=n))
    nodes = draw(layout.instances(target.defn, mode=target.mode, clsid=target.clsid,
                                  forced=catalog.forced_for(target) or {}, max_payload=max_payload,
                                  big_counts=big_counts))
    p = G.encode(nodes)
    if kind == "exact":
        return kind, p
    if kind == "short":
        if not p:
            return "empty", p
        cut = draw(st.one_of(st.integers(1, min(len(p), 4)), st.integers(1, len(p))))
        return kind, p[: len(p) - cut]
    if kind == "long":
        extra = draw(st.one_of(st.integers(1, 4), st.integers(1, 40)))
        return kind, p + draw(st.binary(min_size=extra, max_size=extra))
    if kind == "mutated":
        if not p:
            return "empty", p
        b = bytearray(p)
        for _ in range(draw(st.integers(1, 3))):
            i = draw(st.integers(0, len(b) - 1))
            b[i] = draw(st.integers(0, 255))
        return kind, bytes(b)
    raise ValueError(kind)


def known_pairs():
    import pyubx2

    return sorted(k[0:2] for k in pyubx2.UBX_MSGIDS)


@st.composite
def odd_clsid(draw):
    """Undocumented ID in a known class, or unknown class."""
    import pyubx2

    classes = sorted(pyubx2.UBX_CLASSES)
    pairs = set(known_pairs())
    if draw(st.booleans()):
        c = draw(st.sampled_from(classes))
        i = draw(st.integers(0, 255).map(lambda x: bytes([x])))
        kind = "undoc-id" if (c + i) not in pairs else "defined"
        return kind, c + i
    c = draw(st.integers(0, 255).map(lambda x: bytes([x])))
    i = draw(st.integers(0, 255).map(lambda x: bytes([x])))
    if c in pyubx2.UBX_CLASSES:
        kind = "undoc-id" if (c + i) not in pairs else "defined"
    else:
        kind = "unknown-class"
    return kind, c + i


@st.composite
def cfgval_payload(draw, mode, max_items=100):
    """Conforming CFG-VALSET (SET) / CFG-VALGET response (GET) payload: 4-byte
    header followed by `n` key/value items (known and unknown key IDs)."""
    import pyubx2

    from vp.ref import codec

    db = pyubx2.UBX_CONFIG_DATABASE
    names = sorted(db)
    width = {1: 1, 2: 1, 3: 2, 4: 4, 5: 8}
    n = draw(st.one_of(st.integers(0, 6), st.sampled_from([63, 64, 65, 66, 100]), st.integers(0, max_items)))
    hdr = bytes([draw(st.integers(0, 1)), draw(st.integers(0, 7)), draw(st.integers(0, 3)), 0]) if mode == 1 else (
        bytes([1, draw(st.integers(0, 7))]) + draw(st.integers(0, 65535)).to_bytes(2, "little"))
    out = bytearray(hdr)
    base = draw(st.integers(0, len(names) - 1))
    fill = draw(st.integers(0, 255))
    for j in range(n):
        if draw(st.integers(0, 7)) == 0:
            kid = (draw(st.integers(1, 5)) << 28) | draw(st.integers(0, (1 << 28) - 1))
        else:
            kid = db[names[(base + j * 7) % len(names)]][0]
        w = width[(kid >> 28) & 7]
        out += kid.to_bytes(4, "little") + bytes(((fill + j + k) * 37) & 0xFF for k in range(w))
    return bytes(out)
