"""Frame corpora and Hypothesis strategies for multi-protocol byte streams.

A *frame item* is a dict {"p": "ubx"|"nmea"|"rtcm"|"noise"|"frag", "b": bytes,
"tag": str}.  A stream is a list of frame items; its bytes are the
concatenation of the "b" fields."""

import functools
import glob
import os

from hypothesis import strategies as st

from vp import core
from vp.gen import frames as gframes
from vp.ref import codec

START = (0xB5, 0x24, 0xD3)
NOISE_ALPHABET = bytes(x for x in range(256) if x not in START)


# ---------------------------------------------------------------- corpora
def _split_log(data: bytes):
    """Independent splitter: pulls well-formed UBX / NMEA / RTCM3 frames out of
    a recorded log (used only to seed generators)."""
    out = {"ubx": [], "nmea": [], "rtcm": []}
    i, n = 0, len(data)
    while i < n - 1:
        b = data[i]
        if b == 0xB5 and data[i + 1] == 0x62 and i + 6 <= n:
            ln = data[i + 4] + 256 * data[i + 5]
            f = data[i:i + 8 + ln]
            if len(f) == 8 + ln and codec.ubx_wellformed(f):
                out["ubx"].append(f)
                i += len(f)
                continue
        elif b == 0x24:
            j = data.find(b"\n", i)
            if 0 < j - i < 120 and data[j - 1:j] == b"\r" and b"*" in data[i:j]:
                out["nmea"].append(data[i:j + 1])
                i = j + 1
                continue
        elif b == 0xD3 and data[i + 1] < 4 and i + 3 <= n:
            ln = (data[i + 1] << 8) | data[i + 2]
            f = data[i:i + 6 + ln]
            if len(f) == 6 + ln and codec.crc24q(f[:-3]) == int.from_bytes(f[-3:], "big"):
                out["rtcm"].append(f)
                i += len(f)
                continue
        i += 1
    return out


@functools.lru_cache(maxsize=1)
def corpus():
    root = os.path.join(os.path.dirname(core.REPO_SRC.rstrip("/")), "tests")
    agg = {"ubx": [], "nmea": [], "rtcm": []}
    seen = set()
    for path in sorted(glob.glob(os.path.join(root, "*.log"))):
        try:
            data = open(path, "rb").read()
        except OSError:
            continue
        for k, v in _split_log(data).items():
            for f in v:
                if f not in seen and len(f) < 1200:
                    seen.add(f)
                    agg[k].append(f)
    # a small built-in fallback so that generators never run dry
    if not agg["nmea"]:
        agg["nmea"] = [codec.nmea_frame("GNGLL,5327.04319,N,00214.41396,W,223232.00,A,A")]
    if not agg["rtcm"]:
        agg["rtcm"] = [codec.rtcm_frame(bytes.fromhex("3ed00003"))]
    if not agg["ubx"]:
        agg["ubx"] = [codec.ubx_frame(b"\x05", b"\x01", b"\x06\x01")]
    return {k: sorted(set(v), key=lambda f: (len(f), f)) for k, v in agg.items()}


# ---------------------------------------------------------------- frames
def item(p, b, tag):
    return {"p": p, "b": bytes(b), "tag": tag}


@st.composite
def ubx_items(draw, good_bias=True):
    kind = draw(st.sampled_from(["corpus", "corpus", "target", "target", "badck", "odd", "long", "magic-ck",
                                 "block", "carrier"]))
    if kind == "corpus":
        return item("ubx", draw(st.sampled_from(corpus()["ubx"])), "good")
    if kind == "carrier":
        # a text / opaque message whose payload quotes a complete frame of another protocol
        inner = draw(st.one_of(st.sampled_from(corpus()["nmea"][:20]), st.sampled_from(corpus()["rtcm"][:20])))
        ck = draw(st.sampled_from([b"\x04\x02", b"\x04\x04", b"\x77\x01"]))
        pre = draw(st.sampled_from([b"", b"rx: ", b"\x00"]))
        return item("ubx", codec.ubx_frame(ck[0:1], ck[1:2], pre + inner), "carrier")
    if kind == "magic-ck":
        # checksum bytes that look like a line terminator / another preamble
        ck, p = draw(gframes.odd_clsid()), draw(st.binary(max_size=12))
        return item("ubx", codec.ubx_frame_with_checksum(ck[1][0:1], ck[1][1:2], p,
                                                         draw(st.sampled_from(codec.MAGIC_CHECKSUMS))), "magic-ck")
    if kind == "block":
        # payload sizes at and around multiples of a 4096-byte block
        n = draw(st.sampled_from([4093, 4094, 4095, 4096, 8190, 8191, 4094, 5000]))
        seedb = draw(st.integers(0, 255))
        import hashlib

        return item("ubx", codec.ubx_frame(b"\x04", b"\x02", hashlib.shake_256(bytes([seedb])).digest(n)), "len>=256")
    if kind == "odd":
        ck, p = draw(gframes.odd_clsid()), draw(st.binary(max_size=20))
        return item("ubx", codec.ubx_frame(ck[1][0:1], ck[1][1:2], p), "odd")
    from vp.props import common as C

    targets = C.cat()[0]
    t = targets[draw(st.integers(0, len(targets) - 1))]
    pk, payload = draw(gframes.payload_for(t, max_payload=300 if kind != "long" else 1500))
    if kind == "long" and len(payload) < 256:
        payload = payload + draw(st.binary(min_size=256, max_size=400))
    f = codec.ubx_frame(t.clsid[0:1], t.clsid[1:2], payload)
    if kind == "badck":
        f = f[:-2] + bytes([f[-2] ^ draw(st.integers(1, 255)), f[-1]])
        return item("ubx", f, "badck")
    return item("ubx", f, "len>=256" if len(payload) >= 256 else "gen")


NMEA_FIELD = st.one_of(st.just(""), st.sampled_from(["A", "N", "W", "1", "12", "5327.04319", "00214.41396",
                                                     "223232.00", "0.5", "-3.2", "M", "V", "99.99", "020823"]),
                       st.text(alphabet="0123456789.", min_size=1, max_size=3),  # (longer numbers can be repeat counts: pynmeagps then loops that often)
                       st.text(alphabet="ABCDEFGHIJKLMNOPQRSTUVWXYZ", min_size=1, max_size=3))


@st.composite
def nmea_items(draw):
    kind = draw(st.sampled_from(["corpus", "corpus", "corpus", "gen", "badck", "unknown", "mutfield",
                                 "prop-odd", "padded", "huge", "lowerck"]))
    base = draw(st.sampled_from(corpus()["nmea"]))
    if kind == "lowerck":
        # the two checksum digits in lower case (some talkers do; whether the sentence
        # is accepted is the sentence parser's call, not the reader's)
        cands = [f for f in corpus()["nmea"] if f[-4:-2] != f[-4:-2].lower()] or [base]
        f = draw(st.sampled_from(cands))
        return item("nmea", f[:-4] + f[-4:-2].lower() + f[-2:], "lowerck")
    if kind == "prop-odd":
        # proprietary sentences whose message-id field is missing or very short
        body = draw(st.sampled_from(["PUBX", "PQTMSN", "PASHR,1,2", "PASHR", "PASHR,", "PTNL", "PUBX,00",
                                     "PGRMI", "P", "PX", "PSTI,", "PQTMVERNO", "PASHR,POS"]))
        return item("nmea", codec.nmea_frame(body), "prop-odd")
    if kind == "corpus":
        return item("nmea", base, "good")
    if kind == "padded":
        # unusual but line-terminated endings: blanks before CRLF, bare LF, CR CR LF
        pad = draw(st.sampled_from([b" ", b"\t", b"  ", b""]))
        end = draw(st.sampled_from([b"\r\n", b"\n", b"\r\r\n"]))
        return item("nmea", base[:-2] + pad + end, "padded")
    if kind == "huge":
        total = draw(st.sampled_from([82, 83, 120, 200, 1023, 1024, 1025, 1500, 5000]))
        head = "GNTXT,01,01,02,"
        text = ("ABCDEFGHIJKLMNOPQRSTUVWXYZ0123456789 " * (total // 30 + 1))[: max(1, total - len(head) - 6)]
        return item("nmea", codec.nmea_frame(head + text), "huge")
    if kind == "badck":
        body = base[1:base.rindex(b"*")]
        return item("nmea", b"$" + body + b"*" + (b"%02X" % ((int(codec.nmea_cksum(body), 16) + 1) % 256)) + b"\r\n",
                    "badck")
    if kind == "mutfield":
        body = base[1:base.rindex(b"*")].decode("ascii", "replace").split(",")
        if len(body) > 1:
            i = draw(st.integers(1, len(body) - 1))
            body[i] = draw(NMEA_FIELD)
        return item("nmea", codec.nmea_frame(",".join(body)), "mutfield")
    talker = draw(st.sampled_from(["GN", "GP", "GL", "GA", "GB", "IN", "EC", "P"]))
    if kind == "unknown":
        msgid = draw(st.sampled_from(["XYZ", "QQQ", "ABC", "ZZZ"]))
    else:
        msgid = draw(st.sampled_from(["GLL", "GGA", "RMC", "GSA", "VTG", "GSV", "ZDA", "TXT", "GNS", "GST"]))
    if talker == "P":
        talker, msgid = "P", draw(st.sampled_from(["UBX,00", "UBX,03", "UBX,04", "GRMI", "XYZ1"]))
    fields = draw(st.lists(NMEA_FIELD, min_size=0, max_size=14))
    return item("nmea", codec.nmea_frame(",".join([talker + msgid] + fields)), "gen")


_TRICKY = []


def tricky_tiny_rtcm():
    if not _TRICKY:
        for n in (1, 2):
            for v in range(256 ** n):
                f = codec.rtcm_frame(v.to_bytes(n, "big"))
                if any(b in f[-3:] for b in (0xB5, 0x24, 0xD3)) and (n == 1 or v % 37 == 0):
                    _TRICKY.append(f)
    return _TRICKY


@st.composite
def rtcm_items(draw):
    kind = draw(st.sampled_from(["corpus", "corpus", "gen", "badcrc", "empty", "tiny", "big", "carrier"]))
    if kind == "carrier":
        # opaque message type whose payload carries a complete frame of another protocol
        inner = draw(st.one_of(st.sampled_from(corpus()["ubx"][:40]), st.sampled_from(corpus()["nmea"][:20])))
        mtype = draw(st.sampled_from([4072, 4095, 1029]))
        body = bytes([mtype >> 4, (mtype & 0xF) << 4]) + inner
        if len(body) < 1024:
            return item("rtcm", codec.rtcm_frame(body), "carrier")
    if kind == "corpus":
        return item("rtcm", draw(st.sampled_from(corpus()["rtcm"])), "good")
    if kind == "badcrc":
        f = draw(st.sampled_from(corpus()["rtcm"]))
        return item("rtcm", f[:-1] + bytes([f[-1] ^ draw(st.integers(1, 255))]), "badcrc")
    if kind == "empty":
        return item("rtcm", codec.rtcm_frame(b""), "empty")
    if kind == "tiny":
        if draw(st.booleans()):
            # payloads of 0..2 bytes whose CRC bytes contain a frame-start byte (b5, 24, d3): if
            # the rejected frame is not skipped as a unit, the reader synchronises inside it
            return item("rtcm", draw(st.sampled_from(tricky_tiny_rtcm())), "tiny")
        return item("rtcm", codec.rtcm_frame(draw(st.binary(min_size=1, max_size=2))), "tiny")
    mtype = draw(st.sampled_from([1005, 1006, 1007, 1033, 1074, 1077, 1084, 1087, 1094, 1097, 1124, 1127,
                                  1230, 1019, 1020, 4072, 1001, 1002, 999, 4095, 0]))
    n = draw(st.integers(2, 60)) if kind == "gen" else draw(st.integers(256, 700))
    body = draw(st.binary(min_size=n, max_size=n))
    body = bytes([mtype >> 4, ((mtype & 0xF) << 4) | (body[1] & 0x0F)]) + body[2:]
    return item("rtcm", codec.rtcm_frame(body), "len>=256" if n >= 256 else "gen")


def noise_items(max_size=12):
    return st.binary(min_size=1, max_size=max_size).map(
        lambda b: item("noise", bytes(NOISE_ALPHABET[x % len(NOISE_ALPHABET)] for x in b), "noise"))


def any_frame():
    return st.one_of(ubx_items(), ubx_items(), nmea_items(), rtcm_items())


def twin_item(it, i, d):
    """Checksum twin of a well-formed UBX frame item (same class/ID/length/checksum,
    different payload), or None when the payload is shorter than 3 bytes."""
    f = bytes(it["b"])
    if it["p"] != "ubx" or len(f) < 11 or not codec.ubx_wellformed(f):
        return None
    p2 = codec.fletcher_twin(f[6:-2], i, d)
    return item("ubx", codec.ubx_frame(f[2:3], f[3:4], p2), "twin")


@st.composite
def error_burst(draw):
    """100..130 frames that their parser rejects, back to back."""
    n = draw(st.one_of(st.integers(100, 130), st.integers(100, 130), st.sampled_from([1050, 1500])))
    kind = draw(st.sampled_from(["ubx", "nmea", "mixed"])) if n < 1000 else "ubx"
    out = []
    for j in range(n):
        if kind == "ubx" or (kind == "mixed" and j % 2):
            f = codec.ubx_frame(b"\x05", b"\x01", bytes([j & 0xFF, 1]))
            out.append(item("ubx", f[:-1] + bytes([f[-1] ^ 0x55]), "badck"))
        else:
            out.append(item("nmea", codec.nmea_frame(f"GNGLL,{j},N,2,W,1.00,A,A", good=False), "badck"))
    return out


@st.composite
def clean_streams(draw, min_frames=2, max_frames=7, noise=True, bursts=True):
    n = draw(st.integers(min_frames, max_frames))
    out = []
    for i in range(n):
        if noise and draw(st.integers(0, 4)) == 0:
            out.append(draw(noise_items()))
        fr = draw(any_frame())
        out.append(fr)
        if fr["p"] == "ubx" and draw(st.integers(0, 5)) == 0:
            tw = twin_item(fr, draw(st.integers(0, 10 ** 6)), draw(st.integers(0, 254)))
            if tw is not None:
                if draw(st.booleans()):
                    out.append(draw(st.one_of(nmea_items(), rtcm_items())))
                out.append(tw)
        if bursts and draw(st.integers(0, 24)) == 0:
            out.extend(draw(error_burst()))
    if noise and draw(st.integers(0, 5)) == 0:
        out.append(draw(noise_items()))
    return out


FRAGMENTS = [b"\xb5", b"\xb5\x62", b"\xb5\x62\x01", b"\xd3", b"\xd3\x00", b"\xd3\x00\x00", b"\xd3\x00\x01",
             b"$", b"$G", b"$X", b"$GNGLL,1", b"\xb5\xb5\x62", b"$\xb5\x62", b"\xd3\xd3\x00", b"\r\n", b"\n",
             b"\xb5\x62\x05\x01\x02\x00", b"\xd3\x04\x00", b"\xb5\x62\x06\x01\xff\xff", b"\xd3\x03\xff"]


@st.composite
def mutated_frame(draw):
    it = draw(any_frame())
    b = bytearray(it["b"])
    op = draw(st.sampled_from(["sub", "ins", "del", "trunc", "lenfield", "dup"]))
    if not b:
        return it
    i = draw(st.integers(0, len(b) - 1))
    if op == "sub":
        b[i] = draw(st.integers(0, 255))
    elif op == "ins":
        b[i:i] = draw(st.binary(min_size=1, max_size=3))
    elif op == "del":
        del b[i:i + draw(st.integers(1, 3))]
    elif op == "trunc":
        del b[i:]
    elif op == "lenfield" and len(b) > 6:
        j = 4 if it["p"] == "ubx" else 2
        b[j] = draw(st.integers(0, 255))
    elif op == "dup":
        b[i:i] = b[max(0, i - 3):i]
    return item("frag", bytes(b), f"mut-{op}")


@st.composite
def garbage_streams(draw, max_items=8):
    n = draw(st.integers(0, max_items))
    out = []
    for _ in range(n):
        k = draw(st.integers(0, 10))
        if k == 10:
            # a frame that carries another complete frame inside its payload, directly
            # followed by a stray start byte
            inner = draw(st.one_of(st.sampled_from(corpus()["ubx"][:40]), st.sampled_from(corpus()["nmea"][:20])))
            if draw(st.booleans()):
                body = bytes([4072 >> 4, (4072 & 0xF) << 4]) + inner
                out.append(item("rtcm", codec.rtcm_frame(body[:1000]), "carrier"))
            else:
                out.append(item("ubx", codec.ubx_frame(b"\x04", b"\x02", b"echo " + inner), "carrier"))
            out.append(item("frag", draw(st.sampled_from([b"\xb5\x00", b"$\x00", b"\xd3\xff", b"\xb5", b"$"])), "fragment"))
            continue
        if k <= 2:
            out.append(draw(any_frame()))
        elif k <= 5:
            out.append(draw(mutated_frame()))
        elif k <= 7:
            out.append(item("frag", draw(st.sampled_from(FRAGMENTS)), "fragment"))
        elif k == 8:
            out.append(draw(noise_items()))
        else:
            out.append(item("frag", draw(st.binary(max_size=10)), "random"))
    return out


def stream_bytes(items):
    return b"".join(bytes(i["b"]) for i in items)
