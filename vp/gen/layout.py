"""Hypothesis strategies producing layout instances (vp.ref.grammar) for a
payload definition.  Every random choice goes through `draw`."""

from hypothesis import strategies as st

from vp.ref import codec
from vp.ref import grammar as G

MAX_PAYLOAD = 65535


def raw_int(t):
    lo, hi = codec.int_range(t)
    n = 8 * codec.tsize(t)
    edge = {lo, hi, 0, 1, min(hi, max(lo, hi - 1)), min(hi, lo + 1), 1 << (n - 1) if t[0] != "I" else -1,
            hi >> 1, int("55" * codec.tsize(t), 16) & hi, (1 << (n - 1)) - 1}
    edge = sorted(x for x in edge if lo <= x <= hi)
    return st.one_of(st.sampled_from(edge), st.integers(lo, hi), st.integers(max(lo, -300), min(hi, 300)))


def raw_uint_bits(bits):
    hi = (1 << bits) - 1
    if bits <= 1:
        return st.integers(0, hi)
    return st.one_of(st.sampled_from([0, 1, hi, hi - 1, 1 << (bits - 1)]), st.integers(0, hi))


_F4 = [0x00000000, 0x80000000, 0x3F800000, 0xBF800000, 0x7F800000, 0xFF800000, 0x7FC00000,
       0x00000001, 0x7F7FFFFF, 0x00800000, 0x3DCCCCCD, 0x7FA00000]
_F8 = [0x0, 0x8000000000000000, 0x3FF0000000000000, 0xBFF0000000000000, 0x7FF0000000000000,
       0xFFF0000000000000, 0x7FF8000000000000, 0x1, 0x7FEFFFFFFFFFFFFF, 0x0010000000000000,
       0x3FB999999999999A, 0x7FF4000000000000]


def raw_float_bits(t, finite_only=False):
    n = codec.tsize(t)
    specials = _F4 if n == 4 else _F8
    s = st.one_of(st.sampled_from(specials), st.integers(0, (1 << (8 * n)) - 1))
    if finite_only:
        import math

        def ok(bits):
            v = codec.value_of(t, bits)
            return math.isfinite(v)

        s = s.filter(ok)
    return s


def raw_bytes(n):
    return st.one_of(
        st.sampled_from([b"\x00" * n, b"\xff" * n, (b"GNSS-ubx" * (n // 8 + 1))[:n]]),
        st.binary(min_size=n, max_size=n),
    )


def raw_for(t, finite_floats=False):
    k = t[0]
    if t == "CH":
        special = [b"\xef\xbb\xbf", b"\xef\xbb\xbfANTSTATUS=OK", b"\xff\xfe", b"\xfe\xff", b"\x00", b"\xe2\x84\xa6",
                   "e\u0301".encode(), "\u212b".encode(), "\uf900".encode(), b"\xc0\x80", b"\xed\xa0\x80", b"\r\n", b" x "]
        return st.one_of(st.sampled_from(special), st.binary(min_size=0, max_size=40),
                         st.text(alphabet="abc xyz\xe9€", min_size=0, max_size=20).map(
                             lambda s: s.encode("utf-8")))
    if k in codec.INT_LETTERS:
        return raw_int(t)
    if k == "R":
        return raw_float_bits(t, finite_floats)
    if k in "XC":
        return raw_bytes(codec.tsize(t))
    if k == "A":
        return raw_bytes(codec.tsize(t)).map(list)
    raise ValueError(t)


COUNT_SMALL = [0, 1, 2, 3, 5]
COUNT_EDGE = [9, 10, 32, 99, 100, 101, 255]


def draw_count(draw, cap, big_ok=True):
    """A repeat count in 0..cap: mostly small, sometimes the suffix-width
    boundaries (99/100/101), 255 or the maximum the field / payload allows."""
    cap = max(0, cap)
    pool = [c for c in COUNT_SMALL if c <= cap]
    if cap <= 64 and cap not in pool:
        pool.append(cap)  # the largest count a narrow size field can express is always a candidate
    which = draw(st.integers(0, 9))
    if big_ok and which == 0:
        big = [c for c in COUNT_EDGE if c <= cap] + [cap]
        return draw(st.sampled_from(big))
    if which == 1:
        return draw(st.integers(0, min(cap, 12)))
    return draw(st.sampled_from(pool))


def special_count(mode, clsid, nodes, name, value):
    """Documented special case: ESF-MEAS (SET) carries one extra repeat (the
    calibration time tag) when the calibTtagValid flag is set."""
    if mode == 1 and clsid == b"\x10\x02":
        if G.leaf_lookup(nodes, "calibTtagValid"):
            return value + 1
    return value


@st.composite
def instances(draw, defn, mode=0, clsid=b"\x00\x00", forced=None, zero_reserved=False,
              max_payload=MAX_PAYLOAD, big_counts=True, finite_floats=False, forced_counts=None):
    """A layout instance of `defn`.
    forced: {top-level leaf name: raw value or ("ne", v)}.
    forced_counts: {count name: n} (otherwise drawn)."""
    forced = forced or {}
    cnames = set(G.count_names(defn))
    budget = [max_payload - G.min_size(defn)]

    # unit sizes of the groups a count name drives (to bound the count)
    unit = {}
    for v in defn.values():
        if G.is_group_def(v) and isinstance(v[0], str) and v[0] != "None":
            unit[v[0]] = unit.get(v[0], 0) + max(1, G.group_unit_size(v[1]))

    top_nodes = []

    def pick_leaf(name, t, depth, bits=None):
        """raw for attribute (t = type) or flag (bits = width)."""
        if depth == 0 and name in forced:
            f = forced[name]
            if isinstance(f, tuple) and f[0] == "ne":
                base = raw_uint_bits(bits) if bits is not None else raw_for(t)
                return draw(base.filter(lambda x: x != f[1]))
            return f
        if depth == 0 and name in cnames:
            if bits is not None:
                cap = (1 << bits) - 1
            else:
                cap = codec.int_range(t)[1]
            cap = min(cap, budget[0] // unit.get(name, 1))
            if forced_counts and name in forced_counts:
                c = min(forced_counts[name], cap)
            else:
                c = draw_count(draw, cap, big_counts)
            return c
        if bits is not None:
            if zero_reserved and name.startswith("reserved"):
                return 0
            return draw(raw_uint_bits(bits))
        return draw(raw_for(t, finite_floats))

    def gen_nodes(d, depth, out):
        for k, v in d.items():
            if G.is_bitfield_def(v):
                xt, flags = v
                fl = []
                used = 0
                for fk, ft in flags.items():
                    w = codec.tsize(ft)
                    fl.append([fk, ft, pick_leaf(fk, None, depth, bits=w)])
                    used += w
                rem = 8 * codec.tsize(xt) - used
                spare = 0
                if rem > 0 and not zero_reserved:
                    spare = draw(raw_uint_bits(rem))
                out.append(["b", k, xt, fl, spare])
            elif G.is_group_def(v):
                n, sub = v
                usz = max(1, G.group_unit_size(sub))
                if isinstance(n, int):
                    cnt = n
                elif n == "None":
                    cnt = draw_count(draw, budget[0] // usz, big_counts)
                    budget[0] -= cnt * usz
                else:
                    val = G.leaf_lookup(top_nodes, n)
                    if val is None:
                        val = 0
                    cnt = special_count(mode, clsid, top_nodes, n, int(val))
                    budget[0] -= cnt * usz
                its = []
                for _ in range(cnt):
                    it = []
                    gen_nodes(sub, depth + 1, it)
                    its.append(it)
                out.append(["g", k, its])
            else:
                t, scale = (v[0], v[1]) if isinstance(v, list) else (v, None)
                out.append(["f", k, t, scale, pick_leaf(k, t, depth)])

    gen_nodes(defn, 0, top_nodes)
    return top_nodes


def zero_instance(defn, mode=0, clsid=b"\x00\x00", forced=None, counts=None):
    """Deterministic instance: every leaf zero/blank, counted groups sized by
    `counts` {count name: n} (default 0), 'None' groups empty."""
    forced = forced or {}
    counts = counts or {}
    cnames = set(G.count_names(defn))
    top = []

    def zero(t):
        if t == "CH":
            return b""
        k = t[0]
        if k in codec.INT_LETTERS or k == "R":
            return 0
        if k in "XC":
            return b"\x00" * codec.tsize(t)
        return [0] * codec.tsize(t)

    def gen(d, depth, out):
        for k, v in d.items():
            if G.is_bitfield_def(v):
                fl = []
                for fk, ft in v[1].items():
                    val = 0
                    if depth == 0 and fk in forced:
                        val = forced[fk]
                    elif depth == 0 and fk in cnames:
                        val = counts.get(fk, 0)
                    fl.append([fk, ft, val])
                out.append(["b", k, v[0], fl, 0])
            elif G.is_group_def(v):
                n, sub = v
                if isinstance(n, int):
                    cnt = n
                elif n == "None":
                    cnt = counts.get(("None", k), 0)
                else:
                    cnt = special_count(mode, clsid, top, n, int(G.leaf_lookup(top, n) or 0))
                its = []
                for _ in range(cnt):
                    it = []
                    gen(sub, depth + 1, it)
                    its.append(it)
                out.append(["g", k, its])
            else:
                t, scale = (v[0], v[1]) if isinstance(v, list) else (v, None)
                val = zero(t)
                if depth == 0 and k in forced:
                    val = forced[k]
                elif depth == 0 and k in cnames:
                    val = counts.get(k, 0)
                out.append(["f", k, t, scale, val])

    gen(defn, 0, top)
    return top


def cap_instance(defn, mode, clsid, forced=None, flags_on=True, max_payload=20000, salt=0):
    """Deterministic instance whose counted groups are as large as the count field (or
    the payload budget) allows, every other top-level one-bit flag set (or clear), and
    all other leaves filled with a fixed pseudo-random pattern - e.g. ESF-MEAS with
    numMeas = 31 and the calibration time tag present.  None if there is no count."""
    import struct

    cn = list(dict.fromkeys(G.count_names(defn)))
    if not cn:
        return None
    f = {k: v for k, v in (forced or {}).items() if not isinstance(v, tuple)}
    unit, width = {}, {}
    for v in defn.values():
        if G.is_group_def(v) and isinstance(v[0], str) and v[0] != "None":
            unit[v[0]] = unit.get(v[0], 0) + max(1, G.group_unit_size(v[1]))

    def widths(d):
        for k, v in d.items():
            if G.is_bitfield_def(v):
                for fk, ft in v[1].items():
                    width[fk] = (1 << codec.tsize(ft)) - 1
                    if codec.tsize(ft) == 1 and fk not in cn and fk not in f and not fk.startswith("reserved"):
                        f[fk] = 1 if flags_on else 0  # (fixed before the structure is laid out)
            elif not G.is_group_def(v):
                t = v[0] if isinstance(v, list) else v
                if t != "CH" and t[0] in codec.INT_LETTERS:
                    width[k] = codec.int_range(t)[1]

    widths(defn)
    budget = max(0, max_payload - G.min_size(defn))
    counts = {}
    for c in cn:
        counts[c] = max(0, min(width.get(c, 255), budget // max(1, unit.get(c, 1)) // max(1, len(cn))))
    nodes = zero_instance(defn, mode, clsid, forced=f, counts=counts)
    k = [salt * 7919 + 1]
    keep = set(cn) | set(f)

    def fill(ns, depth):
        for nd in ns:
            k[0] = (k[0] * 1103515245 + 12345) & 0x7FFFFFFF
            r = k[0]
            if nd[0] == "f":
                if depth == 0 and nd[1] in keep:
                    continue
                t = nd[2]
                if t == "CH":
                    nd[4] = b"text %d" % (r % 1000)
                elif t[0] in codec.INT_LETTERS:
                    lo, hi = codec.int_range(t)
                    nd[4] = lo + r % (hi - lo + 1)
                elif t[0] == "R":
                    fmt = "<f" if codec.tsize(t) == 4 else "<d"
                    nd[4] = int.from_bytes(struct.pack(fmt, (r % 2000 - 1000) / 8), "little")
                elif t[0] in "XC":
                    nd[4] = bytes((r >> (i % 3 * 8)) & 0xFF for i in range(codec.tsize(t)))
                else:
                    nd[4] = [(r + i) & 0xFF for i in range(codec.tsize(t))]
            elif nd[0] == "b":
                for fl in nd[3]:
                    if (depth == 0 and fl[0] in keep) or fl[0].startswith("reserved"):
                        continue
                    k[0] = (k[0] * 1103515245 + 12345) & 0x7FFFFFFF
                    fl[2] = k[0] % (1 << codec.tsize(fl[1]))
            else:
                for it in nd[2]:
                    fill(it, depth + 1)

    fill(nodes, 0)
    return nodes
