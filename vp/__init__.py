"""Verification machinery for pyubx2 (property-based testing and fuzzing).

Entry point: ``python -m vp.run <property-id> --tier quick|thorough``.
See /verif/DESIGN.md.
"""
