"""C14 - configuration-database messages carry exactly the keys and values given.

Domain   all keys of UBX_CONFIG_DATABASE (enumerated) x {by name, by ID} x
         boundary + random values of the key's type; lists of 0..64 distinct
         keys (and 65, 66, 200 -> refusal); layers 0..255, transaction 0..3,
         position 0..65535; undocumented key IDs with size codes 1..5.
Oracle   reference builder (this file): documented 4-byte header + per item the
         LE32 key ID (+ for set: the value at the storage width the key ID's
         size code prescribes) must equal config_set/del/poll(...).payload;
         parsing a reference-built CFG-VALSET (SET) / CFG-VALGET response (GET)
         yields the header attributes the definition prescribes plus exactly one
         attribute per key, named by the key (CFG_0x... for unknown IDs), equal
         to its value; name->ID and ID->name lookups agree.
"""

from hypothesis import strategies as st

from vp import core
from vp.gen import layout
from vp.props import common as C
from vp.ref import codec
from vp.ref import grammar as G

PROP = "C14"
LEVEL = "exploration"
TECHNIQUE = ("exhaustive enumeration of all database keys in both addressing forms plus "
             "Hypothesis-generated key/value lists, against a reference CFG-VAL* payload builder")
RULE = ("case = (helper, header values, list of (key by name | by ID, value)) or a reference-built "
        "CFG-VALSET/CFG-VALGET frame to parse; every database key is enumerated once per form; "
        "lists are Hypothesis-generated; non-trivial = list of >= 2 items with >= 2 distinct "
        "storage widths, or (single-key cases) a non-zero value; distinct by digest")
ASSUMPTIONS = [
    "storage width by size code (key ID bits 30..28): 1->1 bit in 1 byte, 2->1, 3->2, 4->4, 5->8 "
    "bytes (u-blox interface description)",
    "keys in a list are distinct by ID (a repeated key legitimately yields one attribute)",
    "two names sharing one key ID are aliases: either name is accepted for that ID",
    "a wrongly *typed* value (e.g. str for U1) is outside the domain (the suite pins TypeError)",
]

WIDTH = {1: 1, 2: 1, 3: 2, 4: 4, 5: 8}


def floors(tier):
    return {"key-by-name": 1200, "key-by-id": 1200, "list": 300, "parse-set": 300, "parse-get": 300,
            "lookup": 1200, "limit": 6, "unknown-key": 100, "widths>=2": 200, "unknown-sibling": 3000, "after-failed-call": 100, "keyid-lookup": 30000,
            "key-repeated-in-one-call": 200}


def plan(tier, seed):
    return [{"what": "keys", "part": i, "of": 12} for i in range(12)] + [
        {"what": "lists", "part": i} for i in range(6)] + [{"what": "limits"}]


def db():
    import pyubx2

    return pyubx2.UBX_CONFIG_DATABASE


def names_of(kid):
    return [n for n, (k, _t) in db().items() if k == kid]


def enc_value(kid, typ, val):
    """Reference encoding of a value at the storage width the key prescribes."""
    w = WIDTH[(kid >> 28) & 7]
    k = typ[0]
    if k in "UEL":
        return int(val).to_bytes(w, "little", signed=False)
    if k == "I":
        return int(val).to_bytes(w, "little", signed=True)
    if k == "R":
        import struct

        return struct.pack("<f" if w == 4 else "<d", float(val))
    if k == "X":
        assert len(val) == w
        return bytes(val)
    raise ValueError(typ)


def ref_payload(helper, a, b, items):
    """items: [(kid, typ, value)]"""
    if helper == "poll":
        out = bytes([0, a & 0xFF]) + int(b).to_bytes(2, "little")
    else:
        out = bytes([0 if b == 0 else 1, a & 0xFF, b & 0xFF, 0])
    for kid, typ, val in items:
        out += kid.to_bytes(4, "little")
        if helper == "set":
            out += enc_value(kid, typ, val)
    return out


def resolve(item):
    """item = [key (name or int), value] -> (kid, typ) from the table (data)."""
    key = item[0]
    if isinstance(key, str):
        return db()[key]
    for _n, (k, t) in db().items():
        if k == key:
            return k, t
    return key, f"X{WIDTH[(key >> 28) & 7]:03d}"


def header_expect(mode, defname, payload4, bf=1):
    """Header attributes prescribed by the definition (reference grammar)."""
    from vp.ref import catalog

    defn = catalog.tables()[mode][defname]
    hdr = {k: v for k, v in defn.items() if not G.is_group_def(v)}
    nodes = []
    off = 0
    for k, v in hdr.items():
        if G.is_bitfield_def(v):
            n = codec.tsize(v[0])
            word = int.from_bytes(payload4[off:off + n], "little")
            fl, o = [], 0
            for fk, ft in v[1].items():
                w = codec.tsize(ft)
                fl.append([fk, ft, (word >> o) & ((1 << w) - 1)])
                o += w
            nodes.append(["b", k, v[0], fl, word >> o])
        else:
            t = v[0] if isinstance(v, list) else v
            n = codec.tsize(t)
            nodes.append(["f", k, t, v[1] if isinstance(v, list) else None,
                          codec.dec_bytes(t, payload4[off:off + n])])
        off += n
    return G.expect(nodes, bf)


def width_problems(res):
    """Table audit: the declared type of a key must have the storage width its
    key ID's size code prescribes."""
    out = []
    for kid, typ in res:
        w = WIDTH.get((kid >> 28) & 7)
        if w is None or not codec.is_type(typ) or codec.tsize(typ) != w:
            out.append((f"{PROP}|table|width-mismatch",
                        f"key {hex(kid)} is declared {typ} but its size code prescribes {w} byte(s)"))
    return out


def same(a, b):
    if isinstance(a, float) or isinstance(b, float):
        return isinstance(a, float) and isinstance(b, float) and codec.float_same(a, b)
    return a == b and type(a) is type(b)


def check_all(cases) -> core.Out:
    o = core.Out(classes=[], n=0)
    for c in cases:
        r = check(c)
        o.n += 1
        o.viol.extend(r.viol)
        o.classes = list(o.classes) + list(r.classes)
        o.nontrivial = o.nontrivial or r.nontrivial
        o.sample = o.sample or r.sample
        if any(isinstance(i[0], int) and not names_of(i[0]) for i in c.get("items", [])):
            o.classes.append("unknown-key")
    o.dig = core.digest(cases)
    return o


def check(case) -> core.Out:
    import pyubx2

    if isinstance(case, list):
        return check_all(case)
    k = case["kind"]
    out = core.Out(classes=[k], dig=core.digest(case))
    if k == "build":
        helper, a, b, items = case["helper"], case["a"], case["b"], case["items"]
        key = f"{PROP}|config_{helper}|"
        res = [resolve(it) for it in items]
        wp = width_problems(res)
        if wp:
            out.viol.extend(wp[:1])
            return out
        triples = [(kid, typ, it[1] if len(it) > 1 else None) for (kid, typ), it in zip(res, items)]
        want = ref_payload(helper, a, b, triples)
        widths = {WIDTH[(kid >> 28) & 7] for kid, _t, _v in triples}
        out.classes.append("list" if len(items) != 1 else
                           ("key-by-name" if isinstance(items[0][0], str) else "key-by-id"))
        if len(widths) >= 2:
            out.classes.append("widths>=2")
        out.nontrivial = (len(items) >= 2 and len(widths) >= 2) or (
            len(items) == 1 and bool(items[0][1] if len(items[0]) > 1 else items[0][0]))
        out.sample = {"helper": helper, "args": [a, b, [list(i) for i in items[:3]]], "payload": want[:32]}
        if case.get("after_failure"):
            # history: the same helper is first called with a list that fails part
            # way through (valid keys, then one that cannot be resolved / encoded)
            out.classes.append("after-failed-call")
            good = [it for it in items[:3]] or [[sorted(db())[0]] + ([0] if helper == "set" else [])]
            bad = [["CFG_NO_SUCH_KEY", 0], [0x1FFFFFFFFF, 0], [None, 0]][case["after_failure"] % 3]
            for blist in (good + [bad], [bad]):
                try:
                    fnb = getattr(pyubx2.UBXMessage, f"config_{helper}")
                    fnb(a, b, [tuple(i) for i in blist] if helper == "set" else [i[0] for i in blist])
                except Exception:  # noqa
                    pass
        try:
            fn = getattr(pyubx2.UBXMessage, f"config_{helper}")
            arg = [tuple(i) for i in items] if helper == "set" else [i[0] for i in items]
            m = fn(a, b, arg)
        except Exception as err:  # noqa
            out.viol.append((key + f"raises:{type(err).__name__}", f"config_{helper}({a}, {b}, {items[:2]}...) raised {err!r}"[:300]))
            return out
        got = m.payload or b""
        if got != want:
            # locate header vs item
            where = "header" if got[:4] != want[:4] else "items"
            out.viol.append((key + f"payload:{where}", f"config_{helper}({a}, {b}, {str(items)[:80]}): "
                                                     f"{got[:40].hex()} != reference {want[:40].hex()}"))
        want_id = {"set": (b"\x06", b"\x8a", 1), "del": (b"\x06", b"\x8c", 1), "poll": (b"\x06", b"\x8b", 2)}[helper]
        if (m.msg_cls, m.msg_id, m.msgmode) != want_id:
            out.viol.append((key + "identity", f"{m.msg_cls!r} {m.msg_id!r} mode {m.msgmode}"))
        return out
    if k == "parse":
        mode, hdr, items = case["mode"], bytes(case["hdr"]), case["items"]
        which = "set" if mode == 1 else "get"
        key = f"{PROP}|parse-{which}|"
        out.classes = [f"parse-{which}"]
        res = [resolve(it) for it in items]
        wp = width_problems(res)
        if wp:
            out.viol.extend(wp[:1])
            return out
        payload = hdr
        for (kid, typ), it in zip(res, items):
            payload += kid.to_bytes(4, "little") + enc_value(kid, typ, it[1])
        clsid = b"\x06\x8a" if mode == 1 else b"\x06\x8b"
        defname = "CFG-VALSET" if mode == 1 else "CFG-VALGET"
        frame = codec.ubx_frame(clsid[0:1], clsid[1:2], payload)
        widths = {WIDTH[(kid >> 28) & 7] for kid, _t in res}
        if len(widths) >= 2:
            out.classes.append("widths>=2")
        out.nontrivial = len(items) >= 2 and len(widths) >= 2
        out.sample = {"mode": C.MODES[mode], "frame": frame[:48], "keys": len(items)}
        try:
            m = pyubx2.UBXReader.parse(frame, msgmode=mode)
        except Exception as err:  # noqa
            out.viol.append((key + f"raises:{type(err).__name__}", f"{frame[:40].hex()}: {err!r}"[:300]))
            return out
        attrs = C.public_attrs(m)
        want_hdr = header_expect(mode, defname, hdr)
        nh = len(want_hdr)
        got_hdr = attrs[:nh]
        if [n for n, _ in got_hdr] != [n for n, _ in want_hdr] or not all(
                G.value_matches(v, s) for (_, v), (_, s) in zip(got_hdr, want_hdr)):
            out.viol.append((key + "header", f"header attributes {got_hdr} != prescribed "
                                             f"{[(n, G.describe(s)) for n, s in want_hdr]}"[:300]))
            return out
        tail = attrs[nh:]
        if len(tail) != len(items):
            out.viol.append((key + "count", f"{len(tail)} key attributes for {len(items)} keys: "
                                            f"{[n for n, _ in tail][:5]}"))
            return out
        for (name, val), (kid, typ), it in zip(tail, res, items):
            ok_names = names_of(kid)[:1] or [f"CFG_{hex(kid)}"]  # (aliases: the first table entry)
            if name not in ok_names:
                out.viol.append((key + "name", f"key {hex(kid)} exposed as {name!r}, expected {ok_names}"))
                break
            want = codec.value_of(typ, codec.dec_bytes(typ, enc_value(kid, typ, it[1])))
            if not same(val, want):
                out.viol.append((key + f"value:{typ[0]}", f"{name} = {val!r}, expected {want!r}"))
                break
        return out
    if k == "lookup":
        name = case["name"]
        out.classes = ["lookup"]
        out.nontrivial = True
        if name not in db():
            out.classes = ["skipped:key-gone"]
            return out
        kid, typ = db()[name]
        try:
            a = pyubx2.cfgname2key(name)
            b = pyubx2.cfgkey2name(kid)
        except Exception as err:  # noqa
            out.viol.append((f"{PROP}|lookup|raises:{type(err).__name__}", f"{name}: {err!r}"))
            return out
        if tuple(a) != (kid, typ):
            out.viol.append((f"{PROP}|lookup|name2key", f"cfgname2key({name}) = {a}, table says {(hex(kid), typ)}"))
        if b[0] != names_of(kid)[0] or b[1] != db()[b[0]][1] or db()[b[0]][0] != kid:
            out.viol.append((f"{PROP}|lookup|key2name", f"cfgkey2name({hex(kid)}) = {b}"))
        elif tuple(pyubx2.cfgname2key(b[0])) != (kid, b[1]):
            out.viol.append((f"{PROP}|lookup|roundtrip", f"{name} -> {hex(kid)} -> {b[0]} -> {pyubx2.cfgname2key(b[0])}"))
        return out
    if k == "keyid":
        # ID -> name lookup for an arbitrary 32-bit ID, against the table read as data
        kid = case["kid"]
        out.classes = ["keyid-lookup"]
        out.nontrivial = True
        code = (kid >> 28) & 7
        if (kid >> 28) not in WIDTH and not names_of(kid):
            # reserved bit 31 set or size code outside 1..5: not a key ID of the
            # domain the property quantifies over
            out.classes = ["keyid-out-of-domain"]
            out.nontrivial = False
            return out
        try:
            got = ("ok", tuple(pyubx2.cfgkey2name(kid)))
        except pyubx2.UBXMessageError:
            got = ("refused",)
        except Exception as err:  # noqa
            got = ("raises", type(err).__name__)
        nm = names_of(kid)
        if nm:
            want = ("ok", (nm[0], db()[nm[0]][1]))
        elif code in WIDTH:
            want = ("ok", (f"CFG_{hex(kid)}", f"X{WIDTH[code]:03d}"))
        else:
            want = ("refused",)
        if got != want:
            out.viol.append((f"{PROP}|lookup|keyid", f"cfgkey2name({hex(kid)}) -> {got}, table says {want}"))
        return out
    if k == "registered":
        # a key the application adds to the exported table (after lookups have already
        # taken place) is a key of the database like any other - and is gone again
        # once the application removes it
        name, kid, typ, val = case["name"], case["kid"], case["typ"], case["val"]
        out.classes = ["application-registered-key"]
        out.nontrivial = True
        table = pyubx2.UBX_CONFIG_DATABASE
        if name in table or names_of(kid):
            out.classes = ["skipped:key-exists"]
            return out
        key = f"{PROP}|registered|"
        unknown = (f"CFG_{hex(kid)}", f"X{WIDTH[(kid >> 28) & 7]:03d}")
        try:
            pyubx2.cfgkey2name(0x40520001)
            before = tuple(pyubx2.cfgkey2name(kid))
            table[name] = (kid, typ)
            try:
                if tuple(pyubx2.cfgname2key(name)) != (kid, typ):
                    out.viol.append((key + "name2key", f"cfgname2key({name}) = {pyubx2.cfgname2key(name)}"))
                if tuple(pyubx2.cfgkey2name(kid)) != (name, typ):
                    out.viol.append((key + "key2name", f"cfgkey2name({hex(kid)}) = {pyubx2.cfgkey2name(kid)} after "
                                                       f"{name} was registered under that ID"))
                want = ref_payload("set", 1, 0, [(kid, typ, val)])
                for how, k_ in (("name", name), ("id", kid)):
                    try:
                        got = pyubx2.UBXMessage.config_set(1, 0, [(k_, val)]).payload
                    except Exception as err:  # noqa
                        got = repr(err).encode()
                    if got != want:
                        out.viol.append((key + f"config_set-by-{how}", f"{got[:40]!r} instead of {want.hex()}"))
                m = pyubx2.UBXReader.parse(codec.ubx_frame(b"\x06", b"\x8a", want), msgmode=1)
                if getattr(m, name, None) != val:
                    out.viol.append((key + "parse", f"parsed CFG-VALSET exposes {[n for n, _ in C.public_attrs(m)][-1]} "
                                                    f"for the registered key {name}"))
            finally:
                del table[name]
            after = tuple(pyubx2.cfgkey2name(kid))
            if before != unknown or after != unknown:
                out.viol.append((key + "lingers", f"cfgkey2name({hex(kid)}) = {before} before registration and "
                                                  f"{after} after removal; expected {unknown}"))
        except Exception as err:  # noqa
            table.pop(name, None)
            out.viol.append((key + f"raises:{type(err).__name__}", repr(err)[:200]))
        return out
    if k == "limit":
        helper, n = case["helper"], case["n"]
        out.classes = ["limit"]
        out.nontrivial = True
        names = sorted(db())[:n] if n <= len(db()) else None
        items = [(nm, codec.value_of(db()[nm][1], layout_zero(db()[nm][1]))) for nm in names]
        try:
            fn = getattr(pyubx2.UBXMessage, f"config_{helper}")
            m = fn(1, 0, items if helper == "set" else [i[0] for i in items])
            if n > 64:
                out.viol.append((f"{PROP}|limit|accepted", f"config_{helper} accepted {n} items"))
            elif len(m.payload) != len(ref_payload(helper, 1, 0, [(db()[nm][0], db()[nm][1], v) for nm, v in items])):
                out.viol.append((f"{PROP}|limit|length", f"config_{helper} with {n} items: wrong payload length"))
        except pyubx2.UBXMessageError:
            if n <= 64:
                out.viol.append((f"{PROP}|limit|refused", f"config_{helper} refused {n} items"))
        except Exception as err:  # noqa
            out.viol.append((f"{PROP}|limit|raises:{type(err).__name__}", f"{n} items: {err!r}"[:200]))
        return out
    raise ValueError(k)


def layout_zero(typ):
    return G.zero_raw(typ)


def value_strategy(typ):
    def ok(raw):
        import math

        v = codec.value_of(typ, raw)
        return not (isinstance(v, float) and math.isnan(v))

    base = layout.raw_for(typ).filter(ok).map(lambda raw: codec.value_of(typ, raw))
    if typ[0] == "R":
        # a Python int is a legal value for a float key (it is encoded as that float)
        return st.one_of(base, st.integers(-10 ** 6, 10 ** 6), st.sampled_from([50, 1, -3, 255, 2 ** 24]))
    return base


def run_shard(spec, ctx, acc):
    known = set(ctx["known"])
    tier = ctx["tier"]
    names = sorted(db())
    if spec["what"] == "keys":
        reps = 3 if tier == "quick" else 12
        for i, name in enumerate(names):
            if i % spec["of"] != spec["part"]:
                continue
            kid, typ = db()[name]
            case = {"kind": "lookup", "name": name}
            core.handle(acc, core.checked(check, case), case, known)
            # values that compare (and hash) equal but encode differently, one after the
            # other for the same key: +0.0 / -0.0 / 0 for float keys; 1 / True for the rest
            seq = [0.0, -0.0, 0, -0.0, 0.0] if typ[0] == "R" else ([1, True, 1, 0, False] if typ[0] in "ELU" else [])
            if typ[0] in "ELU" and codec.tsize(typ) == 1 and typ[0] == "L":
                seq = [True, 1, False, 0]
            for how in (name, kid):
                for v in seq:
                    c2 = {"kind": "build", "helper": "set", "a": 1, "b": 0, "items": [[how, v]]}
                    o = check(c2)
                    o.classes = list(o.classes) + ["equal-values-in-sequence"]
                    core.handle(acc, o, c2, known)
            # the ends of the type's range, for every key (not left to chance)
            if typ[0] == "R":
                import struct

                big = struct.unpack("<f", bytes.fromhex("ffff7f7f"))[0] if codec.tsize(typ) == 4 else 1.7976931348623157e308
                tiny = struct.unpack("<f", bytes.fromhex("01000000"))[0] if codec.tsize(typ) == 4 else 5e-324
                ends = [float("inf"), float("-inf"), float("nan"), big, -big, tiny, -tiny]
            elif typ[0] in "EILU":
                lo, hi = codec.int_range(typ)
                ends = [lo, hi, lo + 1, hi - 1] if typ[0] != "L" else [0, 1]
            elif typ[0] == "X":
                ends = [b"\xff" * codec.tsize(typ), bytes(codec.tsize(typ)), bytes(range(1, codec.tsize(typ) + 1))]
            else:
                ends = []
            for j, v in enumerate(ends):
                for c2 in ({"kind": "build", "helper": "set", "a": j % 8, "b": 1, "items": [[name if j % 2 else kid, v]]},
                           {"kind": "parse", "mode": 1, "hdr": bytes([0, 1, 0, 0]), "items": [[kid, v]]}):
                    o = check(c2)
                    o.classes = list(o.classes) + ["range-end-value"]
                    core.handle(acc, o, c2, known)
            # every single-bit neighbour of the key ID (documented or not)
            for bit in range(32):
                c2 = {"kind": "keyid", "kid": kid ^ (1 << bit)}
                core.handle(acc, check(c2), c2, known)
                nb = kid ^ (1 << bit)
                if bit < 28 and not names_of(nb) and (i + bit) % 4 == spec["part"] % 4:
                    # ... and a message that carries the neighbour next to the key itself: two
                    # items, two attributes, the undocumented one as raw bytes under its own name
                    w_ = WIDTH[(nb >> 28) & 7]
                    c3 = {"kind": "parse", "mode": (i + bit) % 2, "hdr": bytes([1, 0, 0, 0]) if (i + bit) % 2 == 0 else bytes([0, 1, 0, 0]),
                          "items": [[nb, bytes([0xA0 + j for j in range(w_)])], [kid, codec.value_of(typ, G.zero_raw(typ))]]}
                    o3 = check(c3)
                    o3.classes = list(o3.classes) + ["bit-neighbour-in-message"]
                    core.handle(acc, o3, c3, known)
            # undocumented *siblings*: same group and item, other size code
            if i % 3 == spec["part"] % 3 or tier != "quick":
                for code in (1, 2, 3, 4, 5):
                    sib = (kid & 0x0FFFFFFF) | (code << 28)
                    if names_of(sib):
                        continue
                    val = bytes(((sib >> 3) + j) & 0xFF for j in range(WIDTH[code]))
                    for c2 in ({"kind": "build", "helper": "set", "a": 1, "b": 0, "items": [[sib, val]]},
                               {"kind": "parse", "mode": 1, "hdr": bytes([0, 1, 0, 0]), "items": [[sib, val], [kid, codec.value_of(typ, G.zero_raw(typ))]]},
                               {"kind": "parse", "mode": 0, "hdr": bytes([1, 0, 0, 0]), "items": [[sib, val]]}):
                        o = check(c2)
                        o.classes = list(o.classes) + ["unknown-sibling"]
                        core.handle(acc, o, c2, known)

            def mk(t3, name=name, kid=kid):
                val, a, b = t3
                return [
                    {"kind": "build", "helper": "set", "a": a, "b": b % 4, "items": [[name, val]]},
                    {"kind": "build", "helper": "set", "a": a, "b": b % 4, "items": [[kid, val]]},
                    {"kind": "build", "helper": "del", "a": a, "b": b % 4, "items": [[name]]},
                    {"kind": "build", "helper": "poll", "a": a % 8, "b": b, "items": [[kid]]},
                    {"kind": "parse", "mode": 1, "hdr": bytes([b % 2, a, b % 4, 0]), "items": [[kid, val]]},
                    {"kind": "parse", "mode": 0, "hdr": bytes([1, a % 8]) + (b % 65536).to_bytes(2, "little"),
                     "items": [[name, val]]},
                ]

            strat = st.tuples(value_strategy(typ), st.integers(0, 255), st.integers(0, 65535)).map(mk)


            core.hyp_search(acc, strat, check_all, seed=core.derive(ctx["seed"], PROP, name),
                            max_examples=reps, known=known, rounds=1)
        return
    if spec["what"] == "limits":
        for i, (kid, typ, val) in enumerate([(0x30FE0001, "U002", 48879), (0x10FE0002, "L001", 1), (0x20FE0003, "E001", 7),
                                             (0x40FE0004, "I004", -5), (0x50FE0005, "R008", 2.5),
                                             (0x20FE0006, "X001", b"\x1f")]):
            case = {"kind": "registered", "name": f"CFG_VERIF_KEY{i}", "kid": kid, "typ": typ, "val": val}
            for env in (None,) + tuple(core.ENVS):
                core.handle(acc, core.checked(check, case, env=env), case, known)
        # the largest messages the limit allows: 64 items of every storage width (documented
        # keys of that width first, then undocumented IDs with the same size code)
        for code, w in sorted(WIDTH.items()):
            docs = sorted(n_ for n_, (k_, t_) in db().items() if (k_ >> 28) & 7 == code)[:50]
            items = [[n_, codec.value_of(db()[n_][1], G.zero_raw(db()[n_][1]))] for n_ in docs]
            j = 0
            while len(items) < 64:
                kid_ = (code << 28) | 0x0FE00000 | j
                j += 1
                if not names_of(kid_):
                    items.append([kid_, bytes([j & 0xFF]) * w])
            for helper in ("set", "del", "poll"):
                for cnt in (64, 63):
                    case = {"kind": "build", "helper": helper, "a": 1, "b": 0,
                            "items": [list(i) if helper == "set" else [i[0]] for i in items[:cnt]]}
                    o = core.checked(check, case)
                    o.classes = list(o.classes) + ["full-message"]
                    core.handle(acc, o, case, known)
        for helper in ("set", "del", "poll"):
            for n in (0, 1, 63, 64, 65, 66, 200):
                case = {"kind": "limit", "helper": helper, "n": n}
                core.handle(acc, core.checked(check, case), case, known)
        return
    # lists of distinct keys, known and unknown
    def item(name):
        kid, typ = db()[name]
        return value_strategy(typ).map(lambda v: (kid, name, v))

    known_items = st.sampled_from(names).flatmap(item)

    def unknown_id(code_rest):
        code, rest = code_rest
        kid = (code << 28) | rest
        return kid

    unk = st.tuples(st.integers(1, 5), st.integers(0, (1 << 28) - 1)).map(unknown_id).filter(
        lambda kid: not names_of(kid)).flatmap(
        lambda kid: st.binary(min_size=WIDTH[(kid >> 28) & 7], max_size=WIDTH[(kid >> 28) & 7]).map(
            lambda v: (kid, None, v)))
    items = st.lists(st.one_of(known_items, known_items, unk), min_size=0, max_size=64,
                     unique_by=lambda x: x[0])
    small = st.lists(st.one_of(known_items, unk), min_size=0, max_size=6, unique_by=lambda x: x[0])

    def mkcases(t4):
        its, byname, a, b = t4
        keyed = [[(nm if (byname and nm) else kid), v] for kid, nm, v in its]
        af = (a % 4) if b % 3 == 0 else 0  # a third of the cases follow a failed call
        return [
            {"kind": "build", "helper": "set", "a": a, "b": b % 4, "items": keyed, "after_failure": af},
            {"kind": "build", "helper": "del", "a": a, "b": b % 4, "items": [[x[0]] for x in keyed], "after_failure": af},
            {"kind": "build", "helper": "poll", "a": a % 8, "b": b, "items": [[x[0]] for x in keyed], "after_failure": af},
            {"kind": "parse", "mode": 1, "hdr": bytes([0 if b % 4 == 0 else 1, a, b % 4, 0]), "items": keyed},
            {"kind": "parse", "mode": 0, "hdr": bytes([1, a % 8]) + b.to_bytes(2, "little"), "items": keyed},
        ]


    # the same key more than once in one call (same or other addressing form, same or
    # another value): the helpers take a list, and every entry of it is an item of the payload
    def mkrepeats(t5):
        its, picks, byname, a, b = t5
        orig = list(its)
        its = list(its)
        for src, pos, v2 in picks:
            kid, nm, v = orig[src]
            its.insert(pos % (len(its) + 1), (kid, nm, v if v2 is None else v2[0]))
        forms = [(nm if (nm and (byname + j) % 3 != 0) else kid) for j, (kid, nm, _v) in enumerate(its)]
        keyed = [[f, v] for f, (_k, _n, v) in zip(forms, its)]
        return [
            {"kind": "build", "helper": "set", "a": a, "b": b % 4, "items": keyed, "repeats": True},
            {"kind": "build", "helper": "del", "a": a, "b": b % 4, "items": [[x[0]] for x in keyed], "repeats": True},
            {"kind": "build", "helper": "poll", "a": a % 8, "b": b, "items": [[x[0]] for x in keyed], "repeats": True},
        ]

    def with_repeats(base):
        def again(its):
            # (which entry is repeated, where it goes, None = same value | a second value
            #  from the same key's value strategy)
            def pick(j):
                second = item(its[j][1]).map(lambda x: (x[2],)) if its[j][1] else st.just((its[j][2],))
                return st.tuples(st.just(j), st.integers(0, 63), st.one_of(st.none(), second))
            return st.tuples(st.just(its), st.lists(st.integers(0, len(its) - 1).flatmap(pick), min_size=1, max_size=3))
        return base.filter(lambda its: 1 <= len(its) <= 60).flatmap(again)

    rep = st.tuples(with_repeats(small), st.integers(0, 2), st.integers(0, 255), st.integers(0, 65535)).map(
        lambda t: mkrepeats((t[0][0], t[0][1], t[1], t[2], t[3])))
    before = acc.evaluations
    core.hyp_search(acc, rep, check_all, seed=core.derive(ctx["seed"], PROP, "repeats", spec["part"]),
                    max_examples=40 if tier == "quick" else 1500, known=known, rounds=2)
    acc.classes["key-repeated-in-one-call"] += acc.evaluations - before
    strat = st.tuples(st.one_of(small, items), st.booleans(), st.integers(0, 255), st.integers(0, 65535)).map(mkcases)
    core.hyp_search(acc, strat, check_all, seed=core.derive(ctx["seed"], PROP, "lists", spec["part"]),
                    max_examples=60 if tier == "quick" else 3000, known=known, rounds=2)
