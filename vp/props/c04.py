"""C04 - every message the library builds serialises to a well-formed UBX frame.

Domain   (mode, definition) x route {keywords, payload bytes (conforming,
         arbitrary, unknown class/ID), config_set/config_del/config_poll}
         x addressing {names, ints, bytes}.
Oracle   independent frame predicate: b5 62, class, ID, LE length == actual
         payload length == m.length, Fletcher-8 over class..payload; the
         output is accepted by UBXReader.parse in the same mode and
         re-serialises to itself; the three addressing forms give identical
         frames (or all refuse).
"""

from hypothesis import strategies as st

from vp import core
from vp.gen import frames, layout
from vp.props import common as C
from vp.props import c16
from vp.ref import catalog, codec
from vp.ref import grammar as G

PROP = "C04"
LEVEL = "exploration"
TECHNIQUE = ("property-based testing (Hypothesis) of all construction routes and addressing "
             "forms against an independent frame well-formedness predicate and a parse round trip")
RULE = ("case = (mode, class/ID, route, keyword values | payload bytes | config-helper arguments) "
        "built in all three addressing forms; non-trivial = construction succeeded with a "
        "non-empty payload; distinct by digest of (mode, route, serialised frame)")
ASSUMPTIONS = ["construction failures (UBX*Error in every addressing form) are outside the domain",
               "a name is resolved to the first UBX_MSGIDS key carrying it (documented lookup)"]


def floors(tier):
    return {"route=kw": 1500, "route=payload": 1500, "route=config": 300, "built": 3000,
            "addr-names": 2500, "odd-clsid": 100, "payload>4092": 20, "magic-checksum": 60, "after-other-class-string": 200}


def plan(tier, seed):
    targets = C.cat()[0]
    idx = list(range(len(targets)))
    return [{"what": "targets", "targets": p} for p in C.split_round_robin(idx, 20)] + [
        {"what": "config", "part": i} for i in range(4)] + [{"what": "odd"}, {"what": "race", "suites": ["build"]}]


def names_for(clsid):
    import pyubx2

    cn = pyubx2.UBX_CLASSES.get(clsid[0:1])
    mn = pyubx2.UBX_MSGIDS.get(clsid)
    if mn is None:  # MGA: any 3-byte key of this class/ID resolves to the same ID byte
        for k, v in pyubx2.UBX_MSGIDS.items():
            if k[0:2] == clsid:
                mn = v
                break
    if cn is None or mn is None:
        return None
    # the documented reverse lookup returns the first key with that name
    first = next(k for k, v in pyubx2.UBX_MSGIDS.items() if v == mn)
    if first[0:2] != clsid or next(k for k, v in pyubx2.UBX_CLASSES.items() if v == cn) != clsid[0:1]:
        return None
    return cn, mn


def frame_problems(s, clsid, m):
    probs = []
    if not isinstance(s, bytes):
        return [("type", f"serialize() returned {type(s).__name__}")]
    if len(s) < 8 or s[0:2] != b"\xb5\x62":
        probs.append(("sync", s[:8].hex()))
        return probs
    if s[2:4] != clsid:
        probs.append(("clsid", f"{s[2:4].hex()} != {clsid.hex()}"))
    n = s[4] + 256 * s[5]
    if n != len(s) - 8:
        probs.append(("length-field", f"length field {n}, actual payload {len(s) - 8}"))
    try:
        if m.length != len(s) - 8:
            probs.append(("length-property", f"m.length {m.length}, actual {len(s) - 8}"))
        if (m.payload or b"") != s[6:-2]:
            probs.append(("payload-property", "m.payload differs from the serialised payload"))
    except Exception as err:  # noqa
        probs.append((f"property-raises:{type(err).__name__}", repr(err)[:100]))
    if s[-2:] != codec.fletcher8(s[2:-2]):
        probs.append(("checksum", f"{s[-2:].hex()} != {codec.fletcher8(s[2:-2]).hex()}"))
    return probs


def check(case) -> core.Out:
    if isinstance(case, dict) and case.get("kind") == "race":
        from vp.props import racing

        return racing.check_race(PROP, case)
    import pyubx2

    route = case["route"]
    out = core.Out(classes=[f"route={route}"])
    UBXE = C.ubx_errors()
    if route == "config":
        helper, args = case["helper"], case["args"]
        key = f"{PROP}|config_{helper}|"
        try:
            fn = getattr(pyubx2.UBXMessage, f"config_{helper}")
            if helper == "set":
                m = fn(args[0], args[1], [tuple(x) for x in args[2]])
            else:
                m = fn(args[0], args[1], list(args[2]))
        except UBXE:
            out.classes.append("refused")
            return out
        except (TypeError, OverflowError, ValueError, KeyError):
            out.classes.append("refused-foreign")  # argument errors: C14/C15's business
            return out
        clsid = {"set": b"\x06\x8a", "del": b"\x06\x8c", "poll": b"\x06\x8b"}[helper]
        mode = {"set": 1, "del": 1, "poll": 2}[helper]
        builds = [("helper", m)]
    else:
        mode, clsid = case["mode"], bytes(case["clsid"])
        key = f"{PROP}|{C.MODES[mode]}|{case.get('defname') or clsid.hex()}|{route}|"
        if route == "kw":
            kwargs = dict(case["kwargs"])
        elif case["payload"]:
            kwargs = {"payload": bytes(case["payload"])}
        else:
            kwargs = {}
        if "bf" in case and route == "kw":
            kwargs["parsebitfield"] = case["bf"]
        forms = [("bytes", (clsid[0:1], clsid[1:2])), ("ints", (clsid[0], clsid[1]))]
        nm = names_for(clsid)
        if nm and case.get("other_class") is not None:
            # history: the same message *name* addressed with another class string
            # first.  The documented lookup takes the class byte from the class name
            # and the ID byte from the message name, so that call must equal the
            # bytes form (other class, same ID) - and must not affect what follows.
            oc = sorted(pyubx2.UBX_CLASSES)[case["other_class"] % len(pyubx2.UBX_CLASSES)]
            ocn = pyubx2.UBX_CLASSES[oc]
            if next(k for k, v in pyubx2.UBX_CLASSES.items() if v == ocn) == oc:
                res = []
                for a, b in ((ocn, nm[1]), (oc, clsid[1:2])):
                    try:
                        res.append(pyubx2.UBXMessage(a, b, 0, payload=b"\x00").serialize())
                    except Exception as err:  # noqa
                        res.append(type(err).__name__)
                if res[0] != res[1]:
                    out.viol.append((f"{PROP}|names|class-string-lookup",
                                     f"UBXMessage({ocn!r}, {nm[1]!r}) gives {res[0]!r:.60} but the bytes form "
                                     f"({oc.hex()}, {clsid[1:2].hex()}) gives {res[1]!r:.60}"))
                out.classes.append("after-other-class-string")
        if nm:
            forms.append(("names", nm))
            out.classes.append("addr-names")
        # the same call with equal values of other types: the mode as an IntEnum member
        # or a bool, the raw payload as a bytearray (memoryview: only if it is accepted)
        forms = [(lb, ab, mode, kwargs) for lb, ab in forms]
        ab0 = (clsid[0:1], clsid[1:2])
        forms.append(("enum-mode", ab0, C.ModeEnum(mode), kwargs))
        if mode in (0, 1):
            forms.append(("bool-mode", ab0, bool(mode), kwargs))
        if "payload" in kwargs:
            forms.append(("bytearray-payload", ab0, mode, dict(kwargs, payload=bytearray(kwargs["payload"]))))
            forms.append(("memoryview-payload?", ab0, mode, dict(kwargs, payload=memoryview(kwargs["payload"]))))
        builds, fails = [], []
        for label, (a, b), md, kws in forms:
            try:
                builds.append((label, pyubx2.UBXMessage(a, b, md, **kws)))
            except UBXE as err:
                if not label.endswith("?"):
                    fails.append((label, type(err).__name__))
            except Exception as err:  # noqa - foreign exception types are C15's business
                if not label.endswith("?"):
                    fails.append((label, type(err).__name__))
        if builds and fails:
            out.viol.append((key + "addressing-differs",
                             f"built with {[l for l, _ in builds]} but refused with {fails}"))
        if not builds:
            out.classes.append("refused")
            return out
    out.classes.append("built")
    if case.get("magic"):
        out.classes.append("magic-checksum")
    if case.get("long"):
        out.classes.append("payload>4092" if len(case["payload"]) < 65536 else "payload>=65536")
    ser = []
    for label, m in builds:
        try:
            s = m.serialize()
        except Exception as err:  # noqa
            out.viol.append((key + f"serialize-raises:{type(err).__name__}", repr(err)[:200]))
            return out
        ser.append(s)
        for what, detail in frame_problems(s, clsid, m):
            out.viol.append((key + f"frame:{what}", f"[{label}] {detail}; frame {s[:40].hex()}"))
        pl = m.payload
        if isinstance(pl, bytearray) and "bytearray" not in label:
            # the message hands out its own live buffer: a caller who extends what it got
            # (blob = msg.payload; blob += more) must not change the message
            pl.extend(b"\x55\xaa")
            if pl:
                pl[0] ^= 0xFF
            try:
                s2 = m.serialize()
            except Exception as err:  # noqa
                s2 = repr(err).encode()
            if s2 != s:
                out.viol.append((key + "payload-buffer-shared", f"[{label}] editing the value of .payload in place changes "
                                                                f"serialize(): {s2[:40].hex()} vs {s[:40].hex()}"))
    if len(set(ser)) > 1:
        out.viol.append((key + "addressing-frames-differ", f"{[x[:24].hex() for x in ser]}"))
    if route == "payload" and ser and ser[0][6:-2] != bytes(case["payload"]):
        out.viol.append((key + "payload-not-as-given",
                         f"frame carries {ser[0][6:-2][:24].hex()} but the payload given was "
                         f"{bytes(case['payload'])[:24].hex()}"))
    s = ser[0]
    out.dig = core.digest((mode, route, s))
    out.nontrivial = len(s) > 8
    out.sample = {"route": route, "mode": C.MODES[mode], "frame": s[:40]}
    if not out.viol:
        try:
            p = C.uparse(s, mode)
            if p.serialize() != s:
                out.viol.append((key + "reparse-differs", f"parse(s).serialize() != s for {s[:40].hex()}"))
        except Exception as err:  # noqa
            out.viol.append((key + f"reparse-raises:{type(err).__name__}",
                             f"library output {s[:40].hex()} rejected by parse in mode {mode}: {err!r}"[:300]))
    return out


def kwargs_from(nodes, bf, subset_seed=None):
    kw = {}
    for name, spec in G.expect(nodes, bf):
        if spec[0] == "val":
            kw[name] = spec[2]
        elif spec[0] == "scaled":
            kw[name] = spec[2] * spec[3]
    return kw


def run_shard(spec, ctx, acc):
    if spec.get("what") == "race":
        # steady-state concurrency (see vp/props/racing.py)
        for suite in spec["suites"]:
            case = {"kind": "race", "suite": suite, "seconds": 1.2 if ctx["tier"] == "quick" else 20}
            core.handle(acc, check(case), case, set(ctx["known"]))
        return
    import pyubx2

    known = set(ctx["known"])
    tier = ctx["tier"]
    n = 6 if tier == "quick" else 120
    if spec["what"] == "targets":
        targets = C.cat()[0]
        for ti in spec["targets"]:
            t = targets[ti]
            if G.audit_fatal(t.defn):
                acc.skipped["grammar"] += 1
                continue
            base = {"kind": "build", "mode": t.mode, "clsid": t.clsid, "defname": t.defname}
            pay = st.tuples(frames.payload_for(t, max_payload=3000 if tier == "quick" else 65535),
                            st.one_of(st.none(), st.none(), st.integers(0, 40))).map(
                lambda t2: dict(base, route="payload", payload=t2[0][1], other_class=t2[1]))
            from vp.props import c13

            core.hyp_search(acc, pay, check, seed=core.derive(ctx["seed"], PROP, "p", t.label),
                            max_examples=n, known=known, rounds=2, history=c13.related_history)
            if c16.kw_constructible(t):
                forced = catalog.forced_for(t) or {}

                def mk(nodes_bf, t=t, base=base):
                    nodes, bf = nodes_bf
                    kw = kwargs_from(nodes, bf)
                    disc = c16.nominal_kwargs(t, nodes)
                    for k, v in disc.items():
                        kw.setdefault(k, v)
                    return dict(base, route="kw", kwargs=kw, bf=bf)

                kws = st.tuples(layout.instances(t.defn, mode=t.mode, clsid=t.clsid, forced=forced,
                                                 max_payload=1500, big_counts=False, finite_floats=True,
                                                 zero_reserved=True),
                                st.sampled_from([1, 1, 0])).map(mk)
                core.hyp_search(acc, kws, check, seed=core.derive(ctx["seed"], PROP, "k", t.label),
                                max_examples=n, known=known, rounds=2)
        return
    if spec["what"] == "odd":
        odd = st.builds(lambda ck, p, mode: {"kind": "build", "mode": mode, "clsid": ck[1], "route": "payload",
                                             "payload": p, "defname": None},
                        frames.odd_clsid(), st.binary(max_size=40), st.sampled_from([0, 1, 2]))
        before = acc.evaluations
        core.hyp_search(acc, odd, check, seed=core.derive(ctx["seed"], PROP, "odd"),
                        max_examples=600 if tier == "quick" else 20000, known=known)
        acc.classes["odd-clsid"] += acc.evaluations - before
        # keyword routes whose payload ends at / beyond what the 2-byte length field can
        # express (text attribute, counted groups): refusal is fine, a malformed frame is not
        big = [(0, b"\x04\x02", "INF-NOTICE", {"message": "A" * n}) for n in (65534, 65535, 65536, 65537, 70000, 131072)]
        big += [(0, b"\x0a\x31", "MON-SPAN", {"version": 0, "numRfBlocks": n}) for n in (240, 241, 255)]
        big += [(0, b"\x02\x72", "RXM-PMP-V1", {"version": 1, "numBytesUserData": n}) for n in (65510, 65511, 65512, 65535)]
        big += [(0, b"\x01\x35", "NAV-SAT", {"numSvs": 255}), (0, b"\x02\x15", "RXM-RAWX", {"numMeas": 255})]
        for mode_, ck_, dn_, kw_ in big:
            if C.find_target(mode_, ck_, dn_) is None:
                continue
            case = {"kind": "build", "mode": mode_, "clsid": ck_, "route": "kw", "kwargs": kw_, "defname": dn_}
            o = core.checked(check, case)
            o.classes = list(o.classes) + ["kw-payload-at-length-limit"]
            if core.handle(acc, o, case, known):
                return
        # class/ID bytes that look like structure (sync characters, other protocols'
        # preambles, line ends), enumerated: empty and short payloads, every mode
        special = (0xB5, 0x62, 0x24, 0x47, 0xD3, 0x00, 0x0D, 0x0A, 0xFF)
        for a in special:
            for b in special:
                for payload in (b"", bytes([b, a, 0x5A])):
                    for mode in (0, 1, 2):
                        case = {"kind": "build", "mode": mode, "clsid": bytes([a, b]), "route": "payload",
                                "payload": payload, "defname": None}
                        o = core.checked(check, case)
                        o.classes = list(o.classes) + ["structure-like-clsid"]
                        if core.handle(acc, o, case, known):
                            return
        # frames whose checksum bytes look like a line terminator or a preamble
        magic = st.builds(
            lambda ck, p, target, mode: {"kind": "build", "mode": mode, "clsid": ck[1], "route": "payload", "defname": None,
                                         "payload": codec.ubx_frame_with_checksum(ck[1][0:1], ck[1][1:2], p, target)[6:-2],
                                         "magic": True},
            frames.odd_clsid(), st.binary(max_size=16), st.sampled_from(codec.MAGIC_CHECKSUMS), st.just(0))
        core.hyp_search(acc, magic, check, seed=core.derive(ctx["seed"], PROP, "magic"),
                        max_examples=150 if tier == "quick" else 3000, known=known)
        # long payloads: beyond one 4096-byte block, and around the largest
        # length the 2-byte length field can express (a refusal is fine, a
        # malformed frame is not)
        longs = st.builds(
            lambda n, fill, ck, mode: {"kind": "build", "mode": mode, "clsid": ck, "route": "payload",
                                       "payload": __import__("hashlib").shake_256(bytes([fill])).digest(n), "defname": None,
                                       "long": True},
            st.one_of(st.integers(4090, 4100), st.integers(4093, 9000), st.integers(8185, 8200),
                      st.tuples(st.integers(1, 16), st.sampled_from([-8, -6, -4, -2, -1, 0, 1])).map(
                          lambda kd: min(65535, 4096 * kd[0] + kd[1])),
                      st.sampled_from([65534, 65535, 65536, 65537, 70000])),
            st.integers(0, 255), st.sampled_from([b"\x04\x02", b"\x77\x01", b"\x02\x15", b"\x0a\x04"]),
            st.just(0))
        core.hyp_search(acc, longs, check, seed=core.derive(ctx["seed"], PROP, "long"),
                        max_examples=90 if tier == "quick" else 800, known=known, shrink=False)
        for k in range(1, 17):  # every (length + 4) that is a multiple of 4096, zero-state content
            n = min(65535, 4096 * k - 4)
            case = {"kind": "build", "mode": 0, "clsid": b"\x04\x02", "route": "payload", "defname": None,
                    "payload": codec.zero_state_payload(b"\x04", b"\x02", n, 4096, fill=k), "long": True}
            core.handle(acc, core.checked(check, case), case, known)
        return
    # config helpers
    db = pyubx2.UBX_CONFIG_DATABASE
    names = sorted(db)

    def keyval(name):
        kid, typ = db[name]
        return layout.raw_for(typ).map(lambda raw: (name, kid, codec.value_of(typ, raw)))

    item = st.sampled_from(names).flatmap(keyval)
    items = st.lists(item, min_size=0, max_size=8, unique_by=lambda x: x[1])
    byname = st.booleans()

    def mkset(layers, txn, its, bn):
        return {"kind": "build", "route": "config", "helper": "set",
                "args": [layers, txn, [[(n if bn else k), v] for n, k, v in its]]}

    def mkkeys(helper):
        def f(a, b, its, bn):
            return {"kind": "build", "route": "config", "helper": helper,
                    "args": [a, b, [(n if bn else k) for n, k, _ in its]]}
        return f

    cs = st.one_of(
        st.builds(mkset, st.integers(0, 255), st.integers(0, 3), items, byname),
        st.builds(mkkeys("del"), st.integers(0, 255), st.integers(0, 3), items, byname),
        st.builds(mkkeys("poll"), st.integers(0, 255), st.integers(0, 65535), items, byname),
    )
    core.hyp_search(acc, cs, check, seed=core.derive(ctx["seed"], PROP, "cfg", spec["part"]),
                    max_examples=120 if tier == "quick" else 4000, known=known)
