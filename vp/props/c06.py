"""C06 - the stream reader delivers every well-formed frame, in order, typed by protocol.

Domain   clean streams: sequences of well-formed UBX / NMEA / RTCM3 frames
         (accepted ones and ones their parser rejects: bad checksum / CRC,
         unknown UBX type for the mode, empty RTCM3 payload), all neighbour
         relations, optional noise runs over the alphabet without b5/24/d3;
         reader options msgmode x validate x parsebitfield x {IGNORE, LOG+handler}.
Oracle   constructive + differential: expected items = [(frame, P(frame)) for
         the frames, in order, whose protocol parser P - called directly with
         the reader's options - returns]; iteration must yield exactly that
         list (raw bytes equal, parsed objects equivalent), then stop with the
         stream fully consumed.
"""

import io

from hypothesis import strategies as st

from vp import core
from vp.gen import streams
from vp.props import streamlib as S

PROP = "C06"
LEVEL = "exploration"
TECHNIQUE = ("property-based testing (Hypothesis) over generated multi-protocol frame sequences; "
             "oracle = per-frame direct call of the protocol parser (differential) and exact "
             "raw-byte comparison")
RULE = ("case = (list of frames/noise runs, reader options); frames come from the repository's "
        "recorded logs, from the definition catalogue and from NMEA/RTCM3 grammars, incl. rejected "
        "ones; non-trivial = at least 3 frames from at least 2 protocols; distinct by digest of "
        "(stream bytes, options)")
ASSUMPTIONS = [
    "whether a frame is accepted is decided by calling that protocol's own parser on it",
    "streams on which a dependency parser (pynmeagps / pyrtcm) raises a non-protocol exception "
    "are discarded here and left to C08 (counted)",
    "noise never contains a frame-start byte (b5, 24, d3), as the property states",
]

PROTOS = ("ubx", "nmea", "rtcm")


def floors(tier):
    f = {f"pair={a}>{b}": 15 for a in PROTOS for b in PROTOS}
    f.update({"rejected>accepted": 100, "rtcm-empty>frame": 10, "ubx-len>=256": 15, "rtcm-len>=256": 10,
              "noise": 100, "nontrivial": 300, "source=buffered": 300, "source=file": 100, "source=pipe": 100,
              "source=socket": 150, "usage=iterate-again-after-more-data": 150, "usage=second-reader-continues": 150})
    return f


def plan(tier, seed):
    return [{"part": i} for i in range(16)] + [{"what": "race", "suites": ["reader"]}]


OPTS = st.fixed_dictionaries({
    "msgmode": st.sampled_from([0, 0, 0, 1, 2, 3]),
    "validate": st.sampled_from([1, 1, 0, 2, 3]),  # (bit 1: checksum; bit 2: pynmeagps' VALMSGID)
    "parsebitfield": st.sampled_from([1, 0]),
    "quitonerror": st.sampled_from([0, 1]),
    "labelmsm": st.sampled_from([1, 1, 2]),
    "source": st.sampled_from(S.SOURCES + ["rawpipe", "fileio", "socket:plain", "socket:datagram", "socket:tls-like"]),
    "usage": st.sampled_from(["once", "once", "once", "regrow", "handover"]),
})


def case_strategy():
    return st.tuples(streams.clean_streams(), OPTS).map(
        lambda t: {"kind": "clean", "items": t[0], "opts": t[1]})


def check(case) -> core.Out:
    if isinstance(case, dict) and case.get("kind") == "race":
        from vp.props import racing

        return racing.check_race(PROP, case)
    items, opts = case["items"], dict(case["opts"])
    source = opts.pop("source", "bytesio")
    usage = opts.pop("usage", "once")
    if source.startswith("socket:"):
        usage = "once"
        opts["bufsize"] = 64
    S.close_sources()
    data = streams.stream_bytes(items)
    frames = [i for i in items if i["p"] != "noise"]
    protos = [i["p"] for i in frames]
    classes = []
    for a, b in zip(frames, frames[1:]):
        classes.append(f"pair={a['p']}>{b['p']}")
    if any(i["p"] == "noise" for i in items):
        classes.append("noise")
    out = core.Out(classes=classes, dig=core.digest((data, source, usage, sorted(opts.items()))))
    expected, verdicts = [], []
    for fr in frames:
        verdict, res = S.direct_parse(bytes(fr["b"]), opts)
        if verdict == "foreign":
            out.classes = ["skipped:dependency-foreign-exception"]
            return out
        verdicts.append(verdict)
        if verdict == "ok":
            expected.append((bytes(fr["b"]), res))
    for (a, va), (b, vb) in zip(zip(frames, verdicts), list(zip(frames, verdicts))[1:]):
        if va == "rej" and vb == "ok":
            classes.append("rejected>accepted")
        if a["p"] == "rtcm" and a["tag"] == "empty":
            classes.append("rtcm-empty>frame")
    for fr in frames:
        if fr["tag"] == "len>=256":
            classes.append(f"{fr['p']}-len>=256")
    out.nontrivial = len(frames) >= 3 and len(set(protos)) >= 2
    if out.nontrivial:
        classes.append("nontrivial")
    out.sample = {"frames": [f"{i['p']}:{i['tag']}:{len(i['b'])}B" for i in items], "opts": opts,
                  "stream_head": data[:40]}
    errs = []
    handler = S.handler_returning(len(data), errs) if opts["quitonerror"] == 1 else None
    key = f"{PROP}|"
    if usage == "regrow" and len(items) >= 2:
        # the stream first ends at a frame boundary; iteration stops; more data
        # arrives; the same reader object is iterated again (for-loop protocol)
        classes.append("usage=iterate-again-after-more-data")
        k = len(items) // 2
        first = streams.stream_bytes(items[:k])
        stream = S.TrackingStream(first)
        try:
            rd = S.mk_reader(stream, opts, handler)
            got = [(r, p) for r, p in rd]
            stream.append(data[len(first):])
            got += [(r, p) for r, p in rd]
            exc = None
        except Exception as err:  # noqa
            got, exc = [], err
    elif usage == "handover" and len(expected) >= 2:
        # one reader takes the first items, is dropped, and a second reader with the
        # same options continues on the same stream object
        import gc

        classes.append("usage=second-reader-continues")
        src = source if source != "tracking" else "rawpipe"
        stream = S.make_source(data, src)
        try:
            rd = S.mk_reader(stream, opts, handler)
            it = iter(rd)
            got = [next(it) for _ in range(len(expected) // 2)]
            del rd, it
            gc.collect()
            rd2 = S.mk_reader(stream, opts, handler)
            got += [(r, p) for r, p in rd2]
            exc = None
        except Exception as err:  # noqa
            got, exc = [], err
    else:
        stream = S.make_source(data, source)
        classes.append(f"source={source.split(':')[0]}")
        try:
            got, exc = S.read_all(stream, opts, handler=handler, limit=4 * len(data) + 50)
        except S.HarnessHang:
            out.viol.append((f"{PROP}|hang", f"reader did not terminate on {data[:60].hex()}"))
            return out
    if exc is not None:
        out.viol.append((key + f"raises:{type(exc).__name__}", f"{S.opts_label(opts)}: {exc!r}"[:300]))
        return out
    # locate first difference
    n = min(len(got), len(expected))
    for i in range(n):
        if got[i][0] != expected[i][0]:
            p = S.PNAME[S.proto_of(expected[i][0])]
            out.viol.append((key + f"raw-differs|{p}", f"item {i}: raw {got[i][0][:30].hex()} != frame "
                                                       f"{expected[i][0][:30].hex()} ({S.opts_label(opts)})"))
            return out
        if not S.same_parsed(got[i][1], expected[i][1]):
            p = S.PNAME[S.proto_of(expected[i][0])]
            out.viol.append((key + f"parsed-differs|{p}", f"item {i}: {S.safe_str(got[i][1])} vs parser "
                                                          f"{S.safe_str(expected[i][1])}"))
            return out
    if len(got) < len(expected):
        prev = None
        # which frame precedes the first missing one?
        miss = expected[len(got)][0]
        idx = next(i for i, fr in enumerate(frames) if bytes(fr["b"]) == miss and i >= len(got))
        prev = frames[idx - 1] if idx > 0 else None
        after = f"{prev['p']}:{prev['tag']}" if prev else "start"
        out.viol.append((key + f"missing|{S.PNAME[S.proto_of(miss)]}|after-{after}",
                         f"frame {miss[:30].hex()} not delivered (after {after}); got {len(got)} of "
                         f"{len(expected)} items ({S.opts_label(opts)})"))
        return out
    if len(got) > len(expected):
        out.viol.append((key + f"extra|{S.PNAME[S.proto_of(got[n][0])]}",
                         f"unexpected item {got[n][0][:30].hex()} ({S.opts_label(opts)})"))
        return out
    if source.startswith("socket:") and usage == "once":
        if stream._pos < len(data):
            out.viol.append((key + "not-consumed", f"{len(data) - stream._pos} bytes not received from the socket when iteration ended"))
        return out
    try:
        rest = stream.read()
    except ValueError as err:
        # the caller's stream object was closed behind the caller's back
        out.viol.append((key + "stream-closed", f"the stream handed to the reader is unusable afterwards: {err}"))
        return out
    if rest:
        out.viol.append((key + "not-consumed", f"{len(rest)} bytes left unread after iteration ended"))
    return out


def run_shard(spec, ctx, acc):
    if spec.get("what") == "race":
        # steady-state concurrency (see vp/props/racing.py)
        for suite in spec["suites"]:
            case = {"kind": "race", "suite": suite, "seconds": 1.2 if ctx["tier"] == "quick" else 20}
            core.handle(acc, check(case), case, set(ctx["known"]))
        return
    known = set(ctx["known"])
    n = 300 if ctx["tier"] == "quick" else 6000
    # rejected short RTCM3 frames whose CRC bytes contain a frame-start byte, each followed by
    # frames of every protocol (enumerated: such frames are rare among random ones)
    corp = streams.corpus()
    tricky = streams.tricky_tiny_rtcm()
    for j, f in enumerate(tricky):
        if j % 16 != spec["part"]:
            continue
        tail = [streams.item("ubx", corp["ubx"][j % len(corp["ubx"])], "good"),
                streams.item("nmea", corp["nmea"][j % len(corp["nmea"])], "good"),
                streams.item("rtcm", corp["rtcm"][j % len(corp["rtcm"])], "good")]
        for k_ in range(3):
            case = {"kind": "clean", "items": [streams.item("rtcm", f, "tiny")] + tail[k_:] + tail[:k_],
                    "opts": {"msgmode": 0, "validate": 1, "parsebitfield": 1, "quitonerror": j % 2, "labelmsm": 1,
                             "source": "bytesio", "usage": "once"}}
            o = core.checked(check, case)
            o.classes = list(o.classes) + ["tiny-rtcm-with-start-byte-in-crc"]
            core.handle(acc, o, case, known)
    # more than a thousand rejected frames in a row (each kind, and mixed), then good ones
    if spec["part"] < 5:
        ack_ = S.codec.ubx_frame(b"\x05", b"\x01", b"\x06\x01")
        bads = [streams.item("ubx", ack_[:-1] + b"\x00", "badck"),
                streams.item("nmea", S.codec.nmea_frame("GNTXT,01,01,02,A", good=False), "badck"),
                streams.item("rtcm", S.codec.rtcm_frame(bytes.fromhex("3ed00003"), good_crc=False), "badcrc"),
                streams.item("rtcm", S.codec.rtcm_frame(b""), "empty")]
        run = [bads[spec["part"]]] * 1100 if spec["part"] < 4 else (bads * 300)
        good = [streams.item("ubx", ack_, "good"), streams.item("nmea", corp["nmea"][0], "good"),
                streams.item("rtcm", corp["rtcm"][0], "good")]
        for qe in (0, 1):
            case = {"kind": "clean", "items": good[:1] + run + good,
                    "opts": {"msgmode": 0, "validate": 1, "parsebitfield": 1, "quitonerror": qe, "labelmsm": 1,
                             "source": "bytesio", "usage": "once"}}
            o = check(case)
            o.classes = list(o.classes) + ["long-run-of-rejected-frames"]
            core.handle(acc, o, case, known)
    core.hyp_search(acc, case_strategy(), check, seed=core.derive(ctx["seed"], PROP, spec["part"]),
                    max_examples=n, known=known, rounds=3)
