"""C03 - messages built from keyword attributes encode exactly the values supplied.

Domain   every keyword-constructible (mode, definition) x layout instance
         (reserved bits zero) x a drawn subset of the attributes to supply x
         both bitfield views; plus, per distinct (type, scale) pair in use, every
         raw value of 1- and 2-byte scaled fields (exhaustive) and boundary +
         random raws of wider ones.
Oracle   values are presented exactly as the parser reports them: P = encode
         (instance), m = parse(frame(P)), kw = m's public attributes restricted
         to the subset.  (A) model: UBXMessage(..., **kw).payload == encode(
         instance with the non-supplied leaves zeroed and counted groups re-sized
         from the supplied counts).  (B) full round trip (subset = everything):
         the constructor regenerates P byte for byte.
"""

from hypothesis import strategies as st

from vp import core
from vp.gen import layout
from vp.props import common as C
from vp.props import c16
from vp.ref import catalog, codec
from vp.ref import grammar as G

PROP = "C03"
LEVEL = "exploration"
TECHNIQUE = ("property-based testing (Hypothesis): parse/construct round trip and a reference "
             "grammar model for partial keyword sets; exhaustive raw-value sweep of every 1- and "
             "2-byte scaled (type, scale) pair in use")
RULE = ("case = (mode, class/ID, definition, bf, layout instance, subset of attributes supplied); "
        "non-trivial = at least one supplied attribute with a non-zero raw value; distinct by "
        "digest of (mode, class/ID, bf, payload, subset); scaled-field sweep cases are distinct by "
        "construction (one per raw value)")
ASSUMPTIONS = [
    "keyword-constructible by rule: no variable-by-size group, no CH text, not a payload-only "
    "variant, not CFG-VALGET/VALSET; anything else that refuses its keywords is a violation",
    "float fields take non-NaN bit patterns (a NaN payload is not carried by a Python float)",
    "merged _HP pairs are outside the parse->construct relation (the parser reports only the sum)",
    "reserved flags and undefined bitfield bits are zero in generated instances",
]


def floors(tier):
    return {"application-registered-type": 100, "count-at-cap": 60, "hp-keyword": 100, "as-text": 20, "int-for-float": 300, "rel=B": 1500, "rel=A": 1500, "bf=0": 1000, "bf=1": 1000, "scaled": 1500,
            "sweep": 5000, "count>0": 300, "kwargs-permuted": 300, "single-attribute": 5000}


def has_hp(defn):
    return any(k.startswith("_HP") for k in defn)


def count_fn_for(t):
    return lambda top, name, value: layout.special_count(t.mode, t.clsid, top, name, value)


def plan(tier, seed):
    targets = C.cat()[0]
    idx = [i for i, t in enumerate(targets) if not G.audit_fatal(t.defn)]
    specs = [{"what": "targets", "targets": p} for p in C.split_round_robin(idx, 24)]
    pairs = scaled_pairs()
    for i, p in enumerate(pairs):
        specs.append({"what": "sweep", "pair": i})
    specs.append({"what": "synthetic"})
    return specs


def scaled_pairs():
    """Distinct (type, scale) in use -> a representative (target index, field
    name), preferring top-level fields of small keyword-constructible
    definitions."""
    targets = C.cat()[0]
    best = {}
    for ti, t in enumerate(targets):
        if G.audit_fatal(t.defn) or not c16.kw_constructible(t) or has_hp(t.defn):
            continue
        size = G.min_size(t.defn)

        def walk(d, depth):
            for k, v in d.items():
                if isinstance(v, list):
                    key = (v[0], repr(v[1]))
                    cand = (depth, size, ti, k)
                    if key not in best or cand < best[key]:
                        best[key] = cand
                elif G.is_group_def(v):
                    walk(v[1], depth + 1)

        walk(t.defn, 0)
    return sorted((k[0], k[1], v[2], v[3], v[0]) for k, v in best.items())


def count_in_flag(defn):
    cn = set(G.count_names(defn))
    for v in defn.values():
        if G.is_bitfield_def(v) and cn & set(v[1]):
            return True
    return False


def required_kw(t):
    """Keywords that must / must not be supplied to select this definition."""
    must, must_not = set(), set()
    r = t.kwrule
    if r is not None:
        if r[0] in ("kw_eq", "kw_ne", "kw_present"):
            must.add(r[1])
        elif r[0] == "kw_absent":
            must_not.add(r[1])
    return must, must_not


def check(case) -> core.Out:
    import pyubx2

    from vp.props import synth

    if case.get("defname") in synth.DEFS and C.find_target(case["mode"], bytes(case["clsid"]), case["defname"]) is None:
        synth.sight_unknown(case["defname"])
        with synth.registered(case["defname"]):
            return check(case)

    if case.get("kind") == "leafwise":
        return check_leafwise(case)
    mode, clsid, defname, bf, nodes = (case["mode"], bytes(case["clsid"]), case["defname"],
                                       case["bf"], case["nodes"])
    subset = case.get("subset")  # None = everything (relation B)
    rel = "B" if subset is None else "A"
    t = C.find_target(mode, clsid, defname)
    mlabel = C.MODES[mode]
    classes = [f"rel={rel}", f"bf={bf}", f"mode={mlabel}"]
    out = core.Out(classes=classes)
    key = f"{PROP}|{mlabel}|{defname}|"
    if t is None:
        out.classes = ["skipped:definition-gone"]
        return out
    payload = G.encode(nodes)
    if not t.selects(payload):
        out.classes = ["skipped:not-selecting"]
        return out
    frame = codec.ubx_frame(clsid[0:1], clsid[1:2], payload)
    names = [n for n, _ in G.expect(nodes, bf)]
    tolerate_refusal = False
    if not bf and count_in_flag(t.defn):
        # confirmed finding (listed under C02: ESF-MEAS SET / SEC-OSNMA GET with
        # parsebitfield=0): the group count lives in a bit flag that the raw
        # bitfield view does not expose, so the constructor *refuses* these.  A
        # refusal is excluded here (counted); building something else is judged.
        tolerate_refusal = True
    try:
        m = pyubx2.UBXReader.parse(frame, msgmode=mode, parsebitfield=bf)
        reported = dict(C.public_attrs(m))
    except Exception:  # noqa - C02's business
        reported = {}
    if set(names) != set(reported):
        # the parser does not report what the definition prescribes (C02's
        # business): fall back to the values the reference model prescribes
        classes.append("model-values")
        reported = {}
        for n, spec in G.expect(nodes, bf):
            reported[n] = spec[2] if spec[0] == "val" else spec[2] * spec[3]
    must, must_not = required_kw(t)
    if subset is None:
        keep = set(names) - must_not
    else:
        keep = (set(subset) & set(names)) | (must & set(names))
        keep -= must_not
    if not keep:
        out.classes = ["skipped:empty-subset"]
        return out
    kw = {n: reported[n] for n in names if n in keep}
    if case.get("ints") or (case.get("ints") is None and (len(payload) + sum(payload[:8])) % 3 == 0):
        # whole numbers for scaled and floating-point attributes given as Python ints
        for n, spec in G.expect(nodes, bf):
            v = kw.get(n)
            if isinstance(v, float) and v.is_integer() and abs(v) < 2 ** 53 and str(v) != "-0.0" and (
                    spec[0] == "scaled" or spec[1][0:1] == "R"):
                kw[n] = int(v)
                if "int-for-float" not in classes:
                    classes.append("int-for-float")
    if case.get("kworder") is not None and len(kw) > 1:
        # keyword arguments in a permuted order (the payload is defined by the
        # definition, not by the order in which the caller names the attributes)
        ks = list(kw)
        r = case["kworder"]
        for i in range(len(ks) - 1, 0, -1):
            r = (r * 1103515245 + 12345) % (1 << 31)
            j = r % (i + 1)
            ks[i], ks[j] = ks[j], ks[i]
        kw = {k_: kw[k_] for k_ in ks}
        classes.append("kwargs-permuted")
    want_nodes = G.restrict_full(t.defn, nodes, keep, bf, count_fn_for(t))
    want = G.encode(want_nodes)
    st_ = C.nodes_stats(want_nodes)
    if st_["scaled"]:
        classes.append("scaled")
    if st_["maxcount"] > 0:
        classes.append("count>0")
    out.nontrivial = st_["nonzero"]
    out.dig = core.digest((mode, clsid, bf, payload, tuple(sorted(keep)) if subset is not None else None))
    out.sample = {"mode": mlabel, "definition": defname, "bf": bf,
                  "keywords": {k: kw[k] for k in list(kw)[:6]}, "expected_payload": want[:32]}
    def fresh(d):
        # the library may keep a reference to a list it is given: hand out copies
        return {k_: (list(v_) if isinstance(v_, list) else v_) for k_, v_ in d.items()}

    kw0 = fresh(kw)
    try:
        built = pyubx2.UBXMessage(clsid[0:1], clsid[1:2], mode, parsebitfield=bf, **fresh(kw0))
        got = built.payload or b""
    except Exception as err:  # noqa
        if tolerate_refusal and isinstance(err, C.ubx_errors()):
            out.classes = ["excluded:count-in-bitflag-with-bf=0(C02 finding)"]
            out.viol = []
            out.nontrivial = False
            return out
        # locate the attribute whose value is refused (needed for a precise key)
        culprit = "?"
        needed = {n: kw[n] for n in kw if n in must or n in G.count_names(t.defn)}
        for n in kw:
            try:
                pyubx2.UBXMessage(clsid[0:1], clsid[1:2], mode, parsebitfield=bf, **dict(needed, **{n: kw[n]}))
            except Exception:  # noqa
                culprit = C.base_name(n)
                break
        out.viol.append((key + f"field:{culprit}",
                         f"UBXMessage({defname}, {mlabel}, bf={bf}, {culprit}={kw.get(culprit)!r}, ...) "
                         f"raised {err!r}"[:400]))
        return out
    if got != want:
        fld = C.base_name(G.first_diff_field(want_nodes, want, got))
        out.viol.append((key + f"field:{fld}",
                         f"field {fld}: built payload {got[:40].hex()} != expected {want[:40].hex()} "
                         f"(keywords {str({k: v for k, v in kw.items() if C.base_name(k) == fld})[:120]})"))
        return out
    if C.scribble(built):
        classes.append("rebuild-after-scribble")
        try:
            again = pyubx2.UBXMessage(clsid[0:1], clsid[1:2], mode, parsebitfield=bf, **fresh(kw0)).payload or b""
        except Exception as err:  # noqa
            again = repr(err).encode()
        if again != want:
            out.viol.append((key + "shared-value", "after the caller edited a list attribute of the first message, "
                                                   f"building again from the same keywords gives {again[:40]!r:.90}"))
            return out
        built = pyubx2.UBXMessage(clsid[0:1], clsid[1:2], mode, parsebitfield=bf, **fresh(kw0))
        kw = kw0
    # parsing the built message returns the supplied values
    try:
        back = dict(C.public_attrs(pyubx2.UBXReader.parse(built.serialize(), msgmode=mode, parsebitfield=bf)))
    except Exception as err:  # noqa
        out.viol.append((key + f"reparse-raises:{type(err).__name__}", repr(err)[:200]))
        return out
    for n, _spec in G.expect(want_nodes, bf):
        if n not in kw:
            continue  # (keywords of group members beyond the supplied count are ignored)
        a, b = back.get(n), kw[n]
        if isinstance(a, float) and isinstance(b, int) and not isinstance(b, bool):
            import math

            same = a == b and (b != 0 or math.copysign(1, a) == 1)  # a whole number given as an int
        else:
            same = codec.float_same(a, b) if isinstance(a, float) or isinstance(b, float) else a == b
        if not same:
            out.viol.append((key + f"field:{C.base_name(n)}", f"{n}: supplied {b!r}, parsed back {a!r}"))
            break
    return out


def check_leafwise(case) -> core.Out:
    """Keywords named after the *definition's* leaves, with the model's value for each
    (not what the parser reports): the high-precision parts `_HP<name>` that the parser
    folds into <name>, and character attributes given as text.  The payload must be the
    instance's encoding."""
    import pyubx2

    mode, clsid, defname, nodes = case["mode"], bytes(case["clsid"]), case["defname"], case["nodes"]
    t = C.find_target(mode, clsid, defname)
    out = core.Out(classes=["leafwise", f"mode={C.MODES[mode]}"] + (["as-text"] if case.get("as_text") else []))
    key = f"{PROP}|{C.MODES[mode]}|{defname}|"
    if t is None:
        out.classes = ["skipped:definition-gone"]
        return out
    want = G.encode(nodes)
    if not t.selects(want):
        out.classes = ["skipped:not-selecting"]
        return out
    kw = {}

    def walk(ns, idx):
        sfx = G.suffix(idx)
        for nd in ns:
            if nd[0] == "f":
                v = codec.value_of(nd[2], nd[4]) if nd[3] is None else nd[4] * nd[3]
                if case.get("as_text") and nd[2] != "CH" and nd[2][0] == "C" and isinstance(v, bytes):
                    try:
                        v = v.decode("utf-8")
                    except UnicodeDecodeError:
                        pass
                kw[nd[1] + sfx] = v
            elif nd[0] == "b":
                for fname, _ft, fval in nd[3]:
                    if not fname.startswith("reserved"):
                        kw[fname + sfx] = fval
            else:
                for i, it in enumerate(nd[2]):
                    walk(it, idx + (i + 1,))

    walk(nodes, ())
    _must, must_not = required_kw(t)
    for n_ in must_not:
        kw.pop(n_, None)
    out.nontrivial = any(want)
    out.dig = core.digest((mode, clsid, want, bool(case.get("as_text"))))
    out.sample = {"mode": C.MODES[mode], "definition": defname, "keywords": {k: kw[k] for k in list(kw)[:6]}}
    if any(k.startswith("_HP") and v for k, v in kw.items()):
        out.classes.append("hp-keyword")
    try:
        got = pyubx2.UBXMessage(clsid[0:1], clsid[1:2], mode, **kw).payload or b""
    except Exception as err:  # noqa
        out.viol.append((key + f"leafwise:raises:{type(err).__name__}", f"{defname} from {str(kw)[:120]}: {err!r}"[:300]))
        return out
    if got != want:
        fld = C.base_name(G.first_diff_field(nodes, want, got))
        out.viol.append((key + f"field:{fld}", f"field {fld}: built {got[:40].hex()} != expected {want[:40].hex()} "
                                               f"(keywords {str({k: v for k, v in kw.items() if C.base_name(k) == fld})[:120]})"))
    return out


def template_for(t):
    """All-zero instance with every counted group repeated once and the
    variant discriminators set as the selection rules require."""
    counts = {n: 1 for n in G.count_names(t.defn)}
    ff = catalog.forced_for_kw(t) or {}
    forced = {k: v for k, v in ff.items() if not isinstance(v, tuple)}
    for k, v in ff.items():
        if isinstance(v, tuple):
            forced[k] = 1 if v[1] == 0 else 0
    return layout.zero_instance(t.defn, t.mode, t.clsid, forced=forced, counts=counts)


def scaled_leaves(nodes):
    out = []

    def walk(ns):
        for nd in ns:
            if nd[0] == "f" and nd[3] is not None and not nd[1].startswith("_HP"):
                out.append(nd)
            elif nd[0] == "g":
                for it in nd[2]:
                    walk(it)

    walk(nodes)
    return out


def c15_find(nodes, name, bf):
    from vp.props import c15

    return c15.find_field(nodes, name, bf)


def set_nonzero(fld):
    """Give the located field a small non-zero value that every type can hold."""
    kind, nd, fl = fld
    if kind == "flag":
        fl[2] = 1
    elif kind == "bits":
        nd[3][0][2] = 1
    else:
        t = nd[2]
        if t == "CH":
            nd[4] = b"x"
        elif t[0] in "EILU":
            nd[4] = 1
        elif t[0] == "R":
            nd[4] = 0x3F800000 if codec.tsize(t) == 4 else 0x3FF0000000000000
        elif t[0] in "XC":
            nd[4] = b"\x01" * codec.tsize(t)
        else:
            nd[4] = [1] * codec.tsize(t)


def not_nan_floats(nodes):
    import math

    def walk(ns):
        for nd in ns:
            if nd[0] == "f" and nd[2] != "CH" and nd[2][0] == "R":
                if math.isnan(codec.value_of(nd[2], nd[4])):
                    return False
            elif nd[0] == "g":
                for it in nd[2]:
                    if not walk(it):
                        return False
        return True

    return walk(nodes)


def run_shard(spec, ctx, acc):
    if spec.get("what") == "synthetic":
        # message types registered by the application (vp/props/synth.py): every supplied value
        # comes back, whatever combination of the grammar the definition uses
        from vp.props import synth

        known_ = set(ctx["known"])
        for name in synth.DEFS:
            synth.sight_unknown(name)
            with synth.registered(name) as t:
                if catalog.has_none_group(t.defn):
                    continue  # (variable-by-size groups cannot be built from keywords)
                inst = layout.instances(t.defn, mode=t.mode, clsid=t.clsid, forced={}, zero_reserved=True,
                                        max_payload=1200, big_counts=False).filter(not_nan_floats)
                base = {"kind": "kw", "mode": t.mode, "clsid": t.clsid, "defname": t.defname}
                for bf in (1, 0):
                    before = acc.evaluations
                    core.hyp_search(acc, inst.map(lambda nodes, bf=bf: dict(base, bf=bf, nodes=nodes, subset=None)), check,
                                    seed=core.derive(ctx["seed"], PROP, "synthetic", name, bf),
                                    max_examples=60 if ctx["tier"] == "quick" else 1500, known=known_, rounds=2)
                    acc.classes["application-registered-type"] += acc.evaluations - before
        return
    targets = C.cat()[0]
    known = set(ctx["known"])
    tier = ctx["tier"]
    if spec["what"] == "targets":
        n = 6 if tier == "quick" else 100
        for ti in spec["targets"]:
            t = targets[ti]
            if catalog.has_ch(t.defn) and len(t.defn) == 1:
                # variable-length text message: the keyword is the text (valid UTF-8 text)
                (fname, _typ), = t.defn.items()
                base = {"kind": "kw", "mode": t.mode, "clsid": t.clsid, "defname": t.defname}
                txt = st.one_of(st.text(min_size=1, max_size=40),
                                st.text(alphabet="abc °é€ß中", min_size=1, max_size=20),
                                # not NFC-stable / byte-order mark / compatibility characters
                                st.lists(st.sampled_from(["\u2126", "\u212b", "e\u0301", "\u1100\u1161", "\uf900",
                                                          "\ufeff", "\ufb01", "\u00b5", "x"]), min_size=1, max_size=6).map("".join))
                strat = st.tuples(txt, st.sampled_from([1, 0])).map(
                    lambda tb: dict(base, bf=tb[1], subset=None,
                                    nodes=[["f", fname, "CH", None, tb[0].encode("utf-8")]]))
                core.hyp_search(acc, strat, check, seed=core.derive(ctx["seed"], PROP, "CH", t.label),
                                max_examples=40 if tier == "quick" else 600, known=known, rounds=2)
                continue
            if not c16.kw_constructible(t):
                acc.skipped["not-kw-constructible-by-rule"] += 1
                continue
            forced = catalog.forced_for_kw(t)
            if forced is None:
                acc.skipped["variant-constraints-conflict"] += 1
                continue
            inst = layout.instances(t.defn, mode=t.mode, clsid=t.clsid, forced=forced, zero_reserved=True,
                                    max_payload=1200 if tier == "quick" else 8000, big_counts=False)
            inst = inst.filter(not_nan_floats)
            base = {"kind": "kw", "mode": t.mode, "clsid": t.clsid, "defname": t.defname}
            # counted groups as large as the count field allows, one-bit flags all set / all clear
            if G.count_names(t.defn) and not has_hp(t.defn):
                for on in (True, False):
                    for salt in range(1 if tier == "quick" else 2):
                        try:
                            cnodes = layout.cap_instance(t.defn, t.mode, t.clsid, forced=forced, flags_on=on, salt=salt,
                                                         max_payload=6000 if tier == "quick" else 20000)
                        except Exception:  # noqa - the generator's limits are not the library's
                            cnodes = None
                        if cnodes is None or not not_nan_floats(cnodes):
                            continue
                        case = dict(base, bf=1, nodes=cnodes, subset=None)
                        o = core.checked(check, case)
                        o.classes = list(o.classes) + ["count-at-cap"]
                        core.handle(acc, o, case, known)
            # keywords named after the definition's own leaves (incl. _HP parts), model values
            lw = inst.map(lambda nodes: dict(base, kind="leafwise", nodes=nodes))
            if has_hp(t.defn):
                core.hyp_search(acc, lw, check, seed=core.derive(ctx["seed"], PROP, "LW", t.label),
                                max_examples=40 if tier == "quick" else 600, known=known, rounds=2)
            # character attributes given as text whose UTF-8 encoding fills the field exactly
            tmpl_c = template_for(t)
            for nd_ in [x for x in tmpl_c if x[0] == "f" and x[2] != "CH" and x[2][0] == "C"]:
                w = codec.tsize(nd_[2])
                for txt in ("a" * w, "\u00e9" * (w // 2) + "a" * (w % 2), "M\u00fcller \u00e9t\u00e9"[:w].ljust(w, "x")
                            if len("M\u00fcller \u00e9t\u00e9"[:w].encode()) <= w else "a" * w,
                            "\u20ac" * (w // 3) + "a" * (w % 3), "\u00ff" * (w // 2) + "b" * (w % 2)):
                    raw_ = txt.encode("utf-8")
                    if len(raw_) != w:
                        raw_ = raw_[:w].decode("utf-8", "ignore").encode("utf-8").ljust(w, b"z")
                    nd_[4] = raw_
                    case = dict(base, kind="leafwise", nodes=core.jdec(core.jenc(tmpl_c)), as_text=True)
                    o = core.checked(check, case)
                    core.handle(acc, o, case, known)
                nd_[4] = bytes(w)
            # systematic probe: every scaled field alone, at its boundary raws
            if not has_hp(t.defn):
                tmpl = template_for(t)
                for leaf in scaled_leaves(tmpl):
                    lo, hi = codec.int_range(leaf[2])
                    raws = {lo, hi, 1, -1 if lo < 0 else 3, hi // 2 + 1, lo + 1, hi - 1, 29, 57, 113}
                    # raws whose scaled value is a whole number (supplied as a Python int)
                    whole = set()
                    if isinstance(leaf[3], (int, float)) and leaf[3]:
                        for k_ in (1, 2, 4, 5, 8, 17, 270):
                            r_ = round(k_ / leaf[3])
                            if lo <= r_ <= hi and r_ and float(r_ * leaf[3]).is_integer():
                                whole.add(r_)
                    for raw in sorted(raws | whole):
                        if not lo <= raw <= hi:
                            continue
                        leaf[4] = raw
                        case = dict(base, bf=1, nodes=core.jdec(core.jenc(tmpl)), subset=None, ints=raw in whole)
                        o = core.checked(check, case)
                        o.classes = list(o.classes) + ["field-probe"]
                        core.handle(acc, o, case, known)
                    leaf[4] = 0
            # systematic complement to the drawn subsets: every attribute supplied
            # *alone* (with the counts / discriminators it needs), both views
            if not has_hp(t.defn):
                tmpl = template_for(t)
                for bf in (1, 0):
                    for nm, spec in G.expect(tmpl, bf):
                        if nm in G.count_names(t.defn) or nm in required_kw(t)[0] or nm in required_kw(t)[1]:
                            continue  # (counts and variant discriminators keep their template value)
                        one = core.jdec(core.jenc(tmpl))
                        fld = c15_find(one, nm, bf)
                        if fld is None:
                            continue
                        set_nonzero(fld)
                        case = dict(base, bf=bf, nodes=one, subset=sorted({nm} | set(G.count_names(t.defn))))
                        o = core.checked(check, case)
                        o.classes = list(o.classes) + ["single-attribute"]
                        core.handle(acc, o, case, known)
            for bf in (1, 0):
                if not has_hp(t.defn):
                    sb = st.tuples(inst, st.one_of(st.none(), st.integers(0, 10 ** 6))).map(
                        lambda nk, bf=bf: dict(base, bf=bf, nodes=nk[0], subset=None, kworder=nk[1]))
                    from vp.props import c13

                    core.hyp_search(acc, sb, check, seed=core.derive(ctx["seed"], PROP, "B", t.label, bf),
                                    max_examples=n, known=known, rounds=3, history=c13.related_history)
                else:
                    acc.skipped["relation-B-skipped:_HP-merge"] += 1

                def with_subset(nodes, bf=bf):
                    names = [nm for nm, _ in G.expect(nodes, bf)]
                    if not names:
                        return st.just(dict(base, bf=bf, nodes=nodes, subset=[]))
                    return st.lists(st.sampled_from(names), min_size=1, max_size=max(1, min(len(names), 12)),
                                    unique=True).map(lambda s: dict(base, bf=bf, nodes=nodes, subset=sorted(s)))

                if has_hp(t.defn):
                    continue
                sa = inst.flatmap(with_subset)
                core.hyp_search(acc, sa, check, seed=core.derive(ctx["seed"], PROP, "A", t.label, bf),
                                max_examples=n, known=known, rounds=3)
        return
    # exhaustive / sampled raw sweep of one (type, scale) pair through a real message
    typ, _scale, ti, fname, depth = scaled_pairs()[spec["pair"]]
    t = targets[ti]
    lo, hi = codec.int_range(typ)
    width = codec.tsize(typ)
    if width == 1 or (width == 2 and tier != "quick"):
        raws = range(lo, hi + 1)
    else:
        span = hi - lo
        k = 1500 if tier == "quick" else 60000
        rs = {lo, hi, 0, 1, -1 if lo < 0 else 2, lo + 1, hi - 1}
        for j in range(k):
            rs.add(lo + core.derive(ctx["seed"], PROP, typ, fname, j) * 2654435761 % (span + 1))
            rs.add(max(lo, min(hi, (j - k // 2))))
        raws = sorted(rs)
    counts = {n: 1 for n in G.count_names(t.defn)}
    template = template_for(t)

    def set_field(ns):
        for nd in ns:
            if nd[0] == "f" and nd[1] == fname and nd[3] is not None:
                return nd
            if nd[0] == "g":
                for it in nd[2]:
                    r = set_field(it)
                    if r is not None:
                        return r
        return None

    leaf = set_field(template)
    if leaf is None:
        acc.skipped["sweep-field-not-found"] += 1
        return
    found = set()
    n = 0
    for raw in raws:
        leaf[4] = raw
        case = {"kind": "kw", "mode": t.mode, "clsid": t.clsid, "defname": t.defname, "bf": 1,
                "nodes": template, "subset": None}
        o = core.checked(check, case)
        o.classes = ["sweep", "scaled"] if not o.classes[0].startswith("skipped") else o.classes
        o.dig = None
        o.nontrivial = raw != 0
        if n > 3:
            o.sample = None
        n += 1
        snap = core.jenc(case)
        for k_, d in o.viol:
            if k_ in known:
                acc.known_hits[k_] += 1
            elif k_ not in found:
                found.add(k_)
                acc.violations.append({"key": k_, "case": snap, "detail": d})
        o.viol = []
        acc.record(o)
    acc.extra.setdefault("scaled_pairs_swept", []).append(f"{typ}*{_scale} via {t.label}.{fname} ({n} raws)")
