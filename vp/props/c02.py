"""C02 - parsed attributes are exactly the field values the definition prescribes.

Domain   every reachable (mode, class/ID, definition, variant) x parsebitfield
         x layout instances (boundary-biased raws, counts 0/1/few/99..101/255/max,
         nested and variable-by-size groups).  Pairs are enumerated from the
         tables; values are Hypothesis-generated per pair.
Oracle   reference interpreter of the definition grammar (vp.ref.grammar):
         payload bytes and prescribed attributes are both computed from the
         chosen raws; the library's parse must expose exactly those attributes,
         in payload order, with equal values (scaled: within the documented
         12-decimal rounding), the base identity, and the payload unchanged.
"""

from hypothesis import strategies as st

from vp import core
from vp.gen import layout
from vp.props import common as C
from vp.ref import catalog, codec
from vp.ref import grammar as G
from vp.ref import variants as V

PROP = "C02"
LEVEL = "exploration"
TECHNIQUE = ("property-based testing (Hypothesis) against a reference interpreter of the "
             "definition grammar; (mode, definition, variant) pairs enumerated exhaustively")
RULE = ("case = (mode, class/ID, definition, parsebitfield, layout instance); generated per "
        "enumerated pair by Hypothesis; non-trivial = at least one leaf with raw != 0 and, when "
        "the definition has a repeating group, at least one repeat; distinct by digest of "
        "(mode, class/ID, bf, payload bytes)")
ASSUMPTIONS = [
    "the GET/SET/POLL payload tables, UBX_MSGIDS and the variant-selection rules documented in "
    "ubxvariants.py docstrings are the specification (data), interpreted independently",
    "scaled values may be rounded to 12 decimals (SCALROUND) as the library documents",
    "CFG-VALGET(GET)/CFG-VALSET(SET) key/value tails are decided by C14, not here",
]


def floors(tier):
    return {"bf=0": 300, "bf=1": 300, "mode=GET": 200, "mode=SET": 100, "mode=POLL": 100,
            "count=0": 20, "count>=100": 5, "nested": 2, "variant": 20, "none-group": 20,
            "neg": 50, "scaled": 100, "after-failed-operation": 500, "via-reader": 1000,
            "via-reader-after-twin": 300, "byte-probe": 50000, "ctor-payload-with-keywords": 2000, "application-registered-type": 200, "first-use-order": 400}


def eligible(t):
    if t.is_cfgval():
        return False
    return not G.audit_fatal(t.defn)


def plan(tier, seed):
    targets = C.cat()[0]
    # all definitions of one class/ID (every mode and variant) go to the same
    # shard = the same process, so that state leaking from one mode's parse into
    # another's (caches keyed without the mode) is exercised
    groups = {}
    for i, t in enumerate(targets):
        groups.setdefault(t.clsid, []).append(i)
    shards = [[] for _ in range(32)]
    for j, (_k, g) in enumerate(sorted(groups.items())):
        shards[j % 32].extend(g)
    first = [{"what": "first-use", "part": i, "of": 4} for i in range(4)]
    return [{"targets": part} for part in shards if part] + [{"what": "synthetic"}] + first


def group_spans(nodes):
    """(start, end) byte spans of the repeating groups of an instance."""
    spans, _ = G.leaf_spans(nodes)
    out = []
    for name, s, e in spans:
        if name[-3:-2] == "_" and name[-2:].isdigit():
            out.append((s, e))
    return out


@st.composite
def preludes(draw, t):
    """A failing operation on the same message type: its payload cut inside a
    repeating group, or a keyword of the wrong type for a group member."""
    if draw(st.integers(0, 2)) != 0 or G.audit_fatal(t.defn):
        return []
    nodes = draw(layout.instances(t.defn, mode=t.mode, clsid=t.clsid, forced=catalog.forced_for(t) or {},
                                  max_payload=600, big_counts=False, forced_counts={n: 2 for n in G.count_names(t.defn)}))
    payload = G.encode(nodes)
    gs = group_spans(nodes)
    if gs and draw(st.booleans()):
        s, e = gs[draw(st.integers(0, len(gs) - 1))]
        cut = draw(st.integers(s, max(s, e - 1)))
        return [["parse", codec.ubx_frame(t.clsid[0:1], t.clsid[1:2], payload[:cut]), t.mode]]
    names = [n for n, _ in G.expect(nodes, 1)]
    if names:
        nm = names[draw(st.integers(0, len(names) - 1))]
        kw = [[n, 1] for n in G.count_names(t.defn)] + [[nm, draw(st.sampled_from(["x", None, 10 ** 30, [1]]))]]
        return [["build", t.clsid, t.mode, kw]]
    return []


def case_strategy(t, bf, tier):
    forced = catalog.forced_for(t)
    big = True
    inst = layout.instances(t.defn, mode=t.mode, clsid=t.clsid, forced=forced or {},
                            max_payload=65535 if tier == "thorough" else 16000, big_counts=big)
    return st.tuples(inst, preludes(t), st.sampled_from([None, None, 0, 1])).map(
        lambda np: {"kind": "layout", "mode": t.mode, "clsid": t.clsid, "defname": t.defname, "bf": bf,
                    "nodes": np[0], "prelude": np[1], "via_reader": np[2]})


def run_shard(spec, ctx, acc):
    targets = C.cat()[0]
    known = set(ctx["known"])
    n = 10 if ctx["tier"] == "quick" else 120
    if spec.get("what") == "synthetic":
        # message types registered by the application (vp/props/synth.py)
        from vp.props import synth

        for name in synth.DEFS:
            synth.sight_unknown(name)
            with synth.registered(name) as t:
                for bf in (1, 0):
                    before = acc.evaluations
                    core.hyp_search(acc, case_strategy(t, bf, ctx["tier"]), check,
                                    seed=core.derive(ctx["seed"], PROP, "synthetic", name, bf),
                                    max_examples=60 if ctx["tier"] == "quick" else 1500, known=known, rounds=2)
                    acc.classes["application-registered-type"] += acc.evaluations - before
        return
    if spec.get("what") == "first-use":
        # the first use of a definition in a process decides what a memo holds: every
        # class/ID group is met, in a pristine child process each, in orders the main
        # loop (bitfields parsed first, catalogue order) never produces
        from vp.props import c16

        groups = {}
        for t in targets:
            if eligible(t):
                groups.setdefault(t.clsid, []).append(t)
        for j, (_k, g) in enumerate(sorted(groups.items())):
            if j % spec["of"] != spec["part"]:
                continue
            for order in ("bytes-view-first", "reversed"):
                seq = [(t, bf) for bf in (0, 1) for t in g] if order == "bytes-view-first" else [
                    (t, bf) for t in reversed(g) for bf in (1, 0)]
                cases = []
                for t, bf in seq:
                    try:
                        nodes = c16.nominal_nodes(t)
                    except Exception:  # noqa - the generator's limits are not the library's
                        continue
                    cases.append({"kind": "layout", "mode": t.mode, "clsid": t.clsid, "defname": t.defname, "bf": bf,
                                  "nodes": nodes, "prelude": [], "via_reader": None})
                case = {"kind": "sequence", "order": order, "cases": cases}
                if core.handle(acc, check(case), case, known) and len(acc.violations) >= core.MAX_VIOL_PER_SHARD:
                    return
        return
    acc.extra["unmodelled_variants"] = [f"{m}:{k.hex()}" for m, k in C.cat()[2]]
    acc.extra["unreachable_definitions"] = C.cat()[1]
    for ti in spec["targets"]:
        t = targets[ti]
        if not eligible(t):
            acc.skipped["not-eligible:" + ("cfgval" if t.is_cfgval() else "grammar")] += 1
            continue
        for bf in (1, 0):
            from vp.props import c13

            core.hyp_search(acc, case_strategy(t, bf, ctx["tier"]), check,
                            seed=core.derive(ctx["seed"], PROP, t.label, t.clsid.hex(), bf),
                            max_examples=n, known=known, rounds=2, history=c13.related_history)
            for on in (True, False):
                try:
                    cn_ = layout.cap_instance(t.defn, t.mode, t.clsid, forced=catalog.forced_for(t) or {}, flags_on=on,
                                              salt=bf, max_payload=6000 if ctx["tier"] == "quick" else 20000)
                except Exception:  # noqa - the generator's limits are not the library's
                    cn_ = None
                if cn_ is not None:
                    case = {"kind": "layout", "mode": t.mode, "clsid": t.clsid, "defname": t.defname, "bf": bf,
                            "nodes": cn_, "prelude": [], "via_reader": None}
                    o = core.checked(check, case)
                    o.classes = list(o.classes) + ["count-at-cap"]
                    core.handle(acc, o, case, known)
            for nodes in byte_probes(t, ctx["tier"], ctx["seed"]):
                case = {"kind": "layout", "mode": t.mode, "clsid": t.clsid, "defname": t.defname, "bf": bf,
                        "nodes": nodes, "prelude": [], "via_reader": None}
                o = core.checked(check, case)
                o.classes = list(o.classes) + ["byte-probe"]
                if core.handle(acc, o, case, known) and len(acc.violations) >= core.MAX_VIOL_PER_SHARD:
                    break


SETPOLL_AMBIGUOUS = set()


def byte_probes(t, tier, seed):
    """Deterministic cases: the nominal instance (every counted and variable group
    with one member) with one payload byte at a time set to boundary patterns -
    every field sees 01 / 7f / 80 / ff (thorough: all values in the first 48
    bytes) in each of its bytes while all other fields are zero.  Bytes of repeat
    counts and variant discriminators stay as they are."""
    from vp.props import c16

    nodes = c16.nominal_nodes(t)
    p0 = G.encode(nodes)
    if not p0 or not t.selects(p0):
        return
    guard = set(G.count_names(t.defn)) | set(catalog.forced_for(t) or {})
    if t.kwrule is not None and len(t.kwrule) > 1 and isinstance(t.kwrule[1], str):
        guard.add(t.kwrule[1])
    protected = set()

    def spans(ns, off):
        for nd in ns:
            if nd[0] == "f":
                n = len(codec.enc_raw(nd[2], nd[4]))
                if nd[1] in guard or nd[2] == "CH":
                    protected.update(range(off, off + n))
                off += n
            elif nd[0] == "b":
                n = codec.tsize(nd[2])
                if nd[1] in guard or any(f[0] in guard for f in nd[3]):
                    protected.update(range(off, off + n))
                off += n
            else:
                for it in nd[2]:
                    off = spans(it, off)
        return off

    spans(nodes, 0)
    vals_q = [0x01, 0x7F, 0x80, 0xFF, (seed * 37 + len(p0)) & 0xFF]
    pos = [p for p in range(len(p0)) if p not in protected]
    if tier == "quick":
        pos = pos[:96] + pos[96:][-16:]
    else:
        pos = pos[:600]
    for p in pos:
        for v in (vals_q if tier == "quick" or p >= 48 else range(256)):
            if v == p0[p]:
                continue
            b = bytearray(p0)
            b[p] = v
            if not t.selects(bytes(b)):
                continue
            yield G.refill(nodes, bytes(b))[0]


def check_sequence(case) -> core.Out:
    """Layout cases run one after the other in a forked child of this process (which
    runs nothing itself, so the child starts pristine)."""
    from vp.props import c13

    cases = case["cases"]

    def run():
        res = []
        for c in cases:
            o = check(c)
            res.append([[k, d] for k, d in o.viol])
        return res

    res = c13._in_child(run)
    out = core.Out(classes=["first-use-order", f"order={case.get('order')}"], dig=core.digest(case), n=len(cases),
                   nt=len(cases))
    out.nontrivial = len(cases) > 1
    if isinstance(res, dict):
        raise core.HarnessError(f"first-use child failed: {res.get('__error__')}")
    for i, v in enumerate(res):
        for k, d in v:
            out.viol.append((k, f"(step {i + 1} of {len(cases)}, order {case.get('order')}) {d}"))
    out.sample = {"order": case.get("order"), "steps": [f"{C.MODES[c['mode']]} {c['defname']} bf={c['bf']}" for c in cases][:8]}
    return out


def check(case) -> core.Out:
    import pyubx2

    from vp.props import synth

    if case.get("kind") == "sequence":
        return check_sequence(case)

    if case.get("defname") in synth.DEFS and C.find_target(case["mode"], bytes(case["clsid"]), case["defname"]) is None:
        synth.sight_unknown(case["defname"])
        with synth.registered(case["defname"]):
            return check(case)

    mode, clsid, defname, bf, nodes = (case["mode"], bytes(case["clsid"]), case["defname"],
                                       case["bf"], case["nodes"])
    t = C.find_target(mode, clsid, defname)
    mlabel = C.MODES[mode]
    key = f"{PROP}|{mlabel}|{defname}|bf={bf}|"
    payload = G.encode(nodes)
    stt = C.nodes_stats(nodes)
    classes = [f"mode={mlabel}", f"bf={bf}"]
    if stt["neg"]:
        classes.append("neg")
    if stt["allones"]:
        classes.append("allones")
    if stt["count0"]:
        classes.append("count=0")
    if stt["maxcount"] >= 100:
        classes.append("count>=100")
    if stt["nested"]:
        classes.append("nested")
    if stt["scaled"]:
        classes.append("scaled")
    if t is not None and (t.must is not None or t.must_not or t.mga_type is not None):
        classes.append("variant")
    if t is not None and catalog.has_none_group(t.defn):
        classes.append("none-group")
    out = core.Out(classes=classes)
    out.nontrivial = stt["nonzero"] and (stt["groups"] == 0 or stt["maxcount"] >= 1)
    out.dig = core.digest((mode, clsid, bf, payload))
    out.sample = {"mode": mlabel, "definition": defname, "bf": bf, "payload": payload[:48],
                  "payload_len": len(payload)}
    if t is None or not t.selects(payload) or len(payload) > 65535:
        out.classes = ["skipped:not-selecting"]
        out.nontrivial = False
        return out
    expected = G.expect(nodes, bf)
    frame = codec.ubx_frame(clsid[0:1], clsid[1:2], payload)
    for pre in case.get("prelude") or []:
        # operations that fail (a payload cut inside a group, a bad keyword for a
        # group member) run first: their failure must not change what follows
        try:
            if pre[0] == "parse":
                pyubx2.UBXReader.parse(bytes(pre[1]), msgmode=pre[2], parsebitfield=bf)
            else:
                pyubx2.UBXMessage(bytes(pre[1])[0:1], bytes(pre[1])[1:2], pre[2], **dict(pre[3]))
        except Exception:  # noqa
            pass
    if case.get("prelude"):
        out.classes = list(out.classes) + ["after-failed-operation"]
    try:
        msg = pyubx2.UBXReader.parse(frame, msgmode=mode, parsebitfield=bf)
    except Exception as err:  # noqa - any exception on a conforming payload is a violation
        if len(payload) == 0 and not expected:
            return out
        out.viol.append((key + f"raises:{type(err).__name__}", f"{type(err).__name__}: {err}"[:300]))
        return out
    actual = C.public_attrs(msg)
    if case.get("via_reader") is not None:
        # the same frame through a reader object configured with the same options
        # (validate on or off) must be parsed identically
        import io
        import logging

        out.classes = list(out.classes) + ["via-reader"]
        core.log_off()
        try:
            pre = b""
            if len(payload) >= 3 and (payload[0] + len(payload)) % 2 == 0:
                # the reader sees, just before, a frame of the same type, length and
                # checksum with a different payload (and a sentence in between)
                out.classes = list(out.classes) + ["via-reader-after-twin"]
                pre = codec.ubx_frame(clsid[0:1], clsid[1:2], codec.fletcher_twin(payload, sum(payload), payload[-1]))
                if payload[1] % 2:
                    pre += codec.nmea_frame("GNGLL,5327.04319,N,00214.41396,W,223232.00,A,A")
            from vp.props import streamlib as S

            rd = S.mk_reader(io.BytesIO(pre + frame), {"msgmode": mode, "parsebitfield": bf, "validate": case["via_reader"],
                                                       "quitonerror": 2 if not pre else 0})
            if pre:
                m2 = ([p for r, p in rd if r == frame] or [None])[-1]
            else:
                _raw, m2 = rd.read()
            if m2 is None or C.public_attrs(m2) != actual and repr(C.public_attrs(m2)) != repr(actual):
                out.viol.append((key + "reader-differs", f"reader(validate={case['via_reader']}, parsebitfield={bf}) "
                                                         f"parses the frame differently from UBXReader.parse"))
        except Exception as err:  # noqa
            out.viol.append((key + f"reader-raises:{type(err).__name__}", repr(err)[:200]))
        finally:
            core.log_on()
    if catalog.has_ch(t.defn) and len(payload) == 0 and not actual:
        out.viol.append((key.rsplit("bf=", 1)[0] + "empty-CH",
                         "zero-length text payload: attribute not exposed"))
        return out
    for kind, base, detail in C.compare_attrs(actual, expected):
        out.viol.append((key + f"{kind}:{base}", detail))
    try:
        msg_for_copy = pyubx2.UBXReader.parse(frame, msgmode=mode, parsebitfield=bf)
    except Exception:  # noqa
        msg_for_copy = msg
    if not out.viol and C.scribble(msg):
        # the parsed values were edited in place by their owner: a second parse of
        # the same frame must still report the prescribed values
        out.classes = list(out.classes) + ["reparse-after-scribble"]
        try:
            again = C.public_attrs(pyubx2.UBXReader.parse(frame, msgmode=mode, parsebitfield=bf))
            for kind, base, detail in C.compare_attrs(again, expected):
                out.viol.append((key + f"shared-value:{base}", "after the caller edited a returned list, parsing the "
                                                               f"same frame again gives: {detail}"))
            ids = [id(v) for _n, v in again if isinstance(v, list)]
            if len(ids) != len(set(ids)):
                out.viol.append((key + "shared-value:aliased", "two attributes of one message are the same list object"))
        except Exception as err:  # noqa
            out.viol.append((key + f"shared-value:raises:{type(err).__name__}", repr(err)[:200]))
    if not out.viol and mode in (1, 2) and len(payload) > 2 and t.clsid not in SETPOLL_AMBIGUOUS:
        # automatic SET / POLL detection must keep the caller's bitfield view (payloads of 0..2
        # bytes, where detection is ambiguous, are C17's business and its listed findings)
        try:
            sp = pyubx2.UBXReader.parse(frame, msgmode=3, parsebitfield=bf)
            if sp.msgmode == mode:
                out.classes = list(out.classes) + ["via-setpoll"]
                for kind, base, detail in C.compare_attrs(C.public_attrs(sp), expected):
                    out.viol.append((key + f"setpoll:{kind}:{base}", f"parsed with msgmode=SETPOLL, parsebitfield={bf}: {detail}"))
                    break
        except Exception:  # noqa - whether SETPOLL resolves the mode is C17's clause
            pass
    if not out.viol and (len(payload) + bf) % 2 == 0:
        # a copy of the parsed message (copy / pickle: across processes, queues, caches)
        # exposes the same attributes - in the same bitfield view
        import copy
        import pickle

        for how, mk in (("copy", copy.copy), ("deepcopy", copy.deepcopy), ("pickle", lambda m_: pickle.loads(pickle.dumps(m_)))):
            try:
                dup = mk(msg_for_copy)
            except Exception:  # noqa - whether messages can be copied at all is not C02's business
                continue
            out.classes = list(out.classes) + ["copied"]
            for kind, base, detail in C.compare_attrs(C.public_attrs(dup), expected):
                out.viol.append((key + f"{how}:{kind}:{base}", f"{how} of the parsed message: {detail}"))
                break
    if not out.viol and payload and len(payload) % 3 == 0:
        # the documented constructor route for a raw payload: other keywords are
        # ignored when payload= is given - also ones that name attributes or flags
        distract = {}
        guard = set(G.count_names(t.defn)) | set(catalog.forced_for(t) or {}) | set(V.discriminator_names())
        if t.kwrule is not None and len(t.kwrule) > 1 and isinstance(t.kwrule[1], str):
            guard.add(t.kwrule[1])
        for n_, sp_ in expected:
            if n_ in guard:
                continue  # variant selectors read their discriminating keyword before the payload
            if sp_[0] == "val" and isinstance(sp_[2], int) and not isinstance(sp_[2], bool) and len(distract) < 4:
                distract[n_] = sp_[2] ^ 1
        try:
            m3 = pyubx2.UBXMessage(clsid[0:1], clsid[1:2], mode, parsebitfield=bf, payload=payload, **distract)
            out.classes = list(out.classes) + ["ctor-payload-with-keywords"]
            for kind, base, detail in C.compare_attrs(C.public_attrs(m3), expected):
                out.viol.append((key + f"ctor-payload:{kind}:{base}",
                                 f"UBXMessage(payload=..., {', '.join(distract)}=...): {detail}"))
        except Exception as err:  # noqa
            out.viol.append((key + f"ctor-payload:raises:{type(err).__name__}", repr(err)[:200]))
    try:
        ident = msg.identity
    except Exception as err:  # noqa
        ident = f"<{type(err).__name__}>"
    if ident != t.identity:
        out.viol.append((key + "identity", f"identity {ident!r}, expected {t.identity!r}"))
    if (msg.payload or b"") != payload:
        out.viol.append((key + "payload", "payload property differs from the frame's payload"))
    return out
