"""C13 - messages are immutable and parsing / generating has no side effects.

(a) immutability  messages (parsed and constructed) x attribute names {every
    key of vars(m), the public properties, private names, fresh identifiers}
    x {setattr with values of several types, delattr}: UBXMessageError must be
    raised (AttributeError also accepted when deleting a name that does not
    exist) and serialize() / vars(m) stay unchanged.
(b) silence  file descriptors 1 and 2 are redirected (dup2) around a corpus that
    parses, constructs (both routes), serialises, str()s and repr()s every
    reachable (mode, definition) plus random frames: nothing may be written.
(c) tables  a canonical deep digest of the shared definition / configuration
    tables is unchanged by the corpus and by every operation history of (d).
(d) history independence  model-based: generated operation sequences (parse,
    construct, failing construct, config_*, str, reader over a stream) followed
    by a fixed probe set whose results must equal the baseline computed in a
    fresh interpreter process.
(e) concurrency  worker threads run pre-generated job lists under a tiny switch
    interval; every result must equal the sequentially computed one.
"""

import hashlib
import os
import subprocess
import sys
import tempfile
import threading

from hypothesis import strategies as st

from vp import core
from vp.gen import frames as gframes
from vp.gen import layout, streams
from vp.props import common as C
from vp.props import c16
from vp.ref import catalog, codec
from vp.ref import grammar as G

PROP = "C13"
LEVEL = "exploration"
TECHNIQUE = ("property-based testing (Hypothesis): attribute mutation attempts; fd-level output "
             "capture; table digests; model-based operation histories checked against a "
             "fresh-process baseline; thread stress with a sequential oracle")
RULE = ("case = (message, attribute name, set/delete, value) | corpus operation | operation history "
        "+ probe | thread job lists; non-trivial = (a) the name exists on the message, (d) the "
        "history holds at least one failing operation and one variant message, (b)/(e) every "
        "operation; distinct by digest")
ASSUMPTIONS = [
    "the reader's ERR_LOG logging is not a side effect in the sense of (b)",
    "CPython thread schedules are not owned by the harness: (e) is a stress; shared mutable "
    "state, which a violation needs, is also caught deterministically by (c)/(d)",
    "the probe baseline is computed by a fresh /venv/bin/python process on the same tree",
]

TABLES = ["UBX_PAYLOADS_GET", "UBX_PAYLOADS_SET", "UBX_PAYLOADS_POLL", "UBX_MSGIDS", "UBX_CLASSES",
          "UBX_CONFIG_DATABASE", "UBX_CONFIG_STORSIZE", "ATTTYPE"]


def floors(tier):
    return {"setattr": 1200, "delattr": 1200, "name=existing": 800, "name=private": 500, "name=new": 300,
            "name=property": 300, "silence-op": 1500, "history": 100, "history:nontrivial": 30, "history:per-definition": 2000,
            "threads": 10, "coldstart": 40}


def plan(tier, seed):
    targets = C.cat()[0]
    idx = list(range(len(targets)))
    specs = [{"what": "immut", "targets": p} for p in C.split_round_robin(idx, 8)]
    specs += [{"what": "silence", "targets": p} for p in C.split_round_robin(idx, 6)]
    specs += [{"what": "history", "part": i} for i in range(6)]
    # every definition in turn as the history (not left to the draw of the random histories)
    specs += [{"what": "per-target", "targets": p} for p in C.split_round_robin(idx, 8)]
    specs += [{"what": "threads", "part": i} for i in range(2)]
    specs.append({"what": "race", "suites": ["mixed", "reader"]})
    if tier == "thorough":
        # coverage-guided search for a frame whose processing changes shared state
        specs += [{"what": "atheris", "part": i, "corpus": "valid" if i % 2 else "empty"} for i in range(6)]
    return specs


# ------------------------------------------------------------------ digests
def deep(o):
    if isinstance(o, dict):
        return "{" + ",".join(f"{deep(k)}:{deep(v)}" for k, v in o.items()) + "}"
    if isinstance(o, (list, tuple)):
        return type(o).__name__ + "(" + ",".join(deep(x) for x in o) + ")"
    if callable(o):
        return f"<fn {getattr(o, '__qualname__', '?')}>"
    return f"{type(o).__name__}:{o!r}"


def table_digests():
    import pyubx2
    from pyubx2.ubxvariants import VARIANTS

    out = {}
    for name in TABLES:
        out[name] = hashlib.blake2b(deep(getattr(pyubx2, name)).encode(), digest_size=8).hexdigest()
    out["VARIANTS"] = hashlib.blake2b(deep(VARIANTS).encode(), digest_size=8).hexdigest()
    out.update(constants_digests())
    return out


def constants_digests():
    """Module-level constants (numbers, strings, tuples: LEAPOFFSET, EPOCH0, the mode and
    error codes, ...) of every module of the package, and the sizes of its tables:
    processing messages rebinds none of them."""
    import sys
    import types

    out = {}
    for mname, mod in sorted(sys.modules.items()):
        if not (mname == "pyubx2" or mname.startswith("pyubx2.")) or mod is None:
            continue
        simple = []
        for k, v in sorted(vars(mod).items()):
            if k.startswith("__") or isinstance(v, (types.ModuleType, types.FunctionType, type)) or callable(v):
                continue
            if isinstance(v, (int, float, str, bytes, tuple, frozenset, bool, type(None))) or type(v).__module__ == "datetime":
                simple.append(f"{k}={v!r}")
            elif isinstance(v, (dict, list, set)):
                simple.append(f"len({k})={len(v)}")
        out[f"constants of {mname}"] = hashlib.blake2b("\n".join(simple).encode(), digest_size=8).hexdigest()
    return out


# ------------------------------------------------------------------ operations
def run_op(op):
    """Execute one corpus operation; returns a result summary string.  Never
    raises (exceptions are part of the result)."""
    import pyubx2

    k = op[0]
    scrib = bool(op) and op[-1] == "scribble"
    if scrib:
        op = op[:-1]
    try:
        if scrib and k in ("parse", "build-kw", "build-payload"):
            # the caller edits, in place, the mutable values of the message it got
            if k == "parse":
                mm = pyubx2.UBXReader.parse(bytes(op[1]), msgmode=op[2], parsebitfield=op[3])
            elif k == "build-kw":
                mm = pyubx2.UBXMessage(bytes(op[1])[0:1], bytes(op[1])[1:2], op[2], **dict(op[3]))
            else:
                mm = pyubx2.UBXMessage(bytes(op[1])[0:1], bytes(op[1])[1:2], op[2], payload=bytes(op[3]))
            return "scribbled:" + str(C.scribble(mm))
        if k == "parse":
            m = pyubx2.UBXReader.parse(bytes(op[1]), msgmode=op[2], parsebitfield=op[3],
                                       validate=op[4] if len(op) > 4 else 1)
            return "ok:" + m.serialize().hex() + "|" + str(m) + "|" + repr(m) + "|" + repr(C.public_attrs(m))
        if k == "build-payload":
            extra = dict(op[4]) if len(op) > 4 else {}
            m = pyubx2.UBXMessage(bytes(op[1])[0:1], bytes(op[1])[1:2], op[2], payload=bytes(op[3]), **extra)
            return "ok:" + m.serialize().hex() + "|" + str(m) + "|" + repr(m)
        if k == "build-kw":
            m = pyubx2.UBXMessage(bytes(op[1])[0:1], bytes(op[1])[1:2], op[2], **dict(op[3]))
            return "ok:" + m.serialize().hex() + "|" + str(m) + "|" + repr(C.public_attrs(m))
        if k == "config":
            fn = getattr(pyubx2.UBXMessage, "config_" + op[1])
            arg = [tuple(x) for x in op[4]] if op[1] == "set" else [x[0] for x in op[4]]
            m = fn(op[2], op[3], arg)
            return "ok:" + m.serialize().hex() + "|" + str(m)
        if k == "stream":
            import io
            import logging

            core.log_off()
            try:
                rd = pyubx2.UBXReader(io.BytesIO(bytes(op[1])), quitonerror=0, msgmode=op[2])
                res = [(raw.hex(), str(p)) for raw, p in rd]
            finally:
                core.log_on()
            return "ok:" + repr(res)
        if k == "helper":
            if op[1] == "cfgkey2name":
                return "ok:" + repr(pyubx2.cfgkey2name(op[2]))
            if op[1] == "val2bytes":
                return "ok:" + repr(pyubx2.val2bytes(op[2], op[3]))
    except Exception as err:  # noqa
        return f"exc:{type(err).__name__}"
    return "noop"


def probe_ops():
    """Fixed probe set (incl. variants and error outcomes)."""
    f = codec.ubx_frame
    ops = [
        ["parse", f(b"\x05", b"\x01", b"\x06\x01"), 0, 1],
        ["parse", f(b"\x06", b"\x31", b"\x00"), 2, 1],                       # CFG-TP5 POLL variant
        ["parse", f(b"\x06", b"\x31", b""), 2, 1],
        ["parse", f(b"\x13", b"\x40", bytes([1, 0]) + bytes(range(18))), 1, 1],  # MGA-INI-POS-LLH
        ["parse", f(b"\x13", b"\x40", bytes([0x10, 0]) + bytes(22)), 1, 1],      # MGA-INI-TIME-UTC
        ["parse", f(b"\x02", b"\x72", bytes(24)), 0, 1],                        # RXM-PMP V0
        ["parse", f(b"\x02", b"\x72", bytes([1]) + bytes(23) + bytes(8)), 0, 1],
        ["parse", f(b"\x01", b"\x3c", bytes(40)), 0, 1],                        # NAV-RELPOSNED V0
        ["parse", f(b"\x01", b"\x3c", bytes([1]) + bytes(63)), 0, 1],
        ["parse", f(b"\x06", b"\x17", bytes(4)), 0, 1],                         # CFG-NMEA variants
        ["parse", f(b"\x06", b"\x17", bytes(12)), 0, 1],
        ["parse", f(b"\x06", b"\x17", bytes(20)), 0, 1],
        ["parse", f(b"\x01", b"\x07", bytes(range(92))), 0, 1],                 # NAV-PVT
        ["parse", f(b"\x01", b"\x07", bytes(range(92))), 0, 0],
        ["parse", f(b"\x01", b"\x35", bytes([0, 0, 0, 0, 0, 2, 0, 0]) + bytes(range(24))), 0, 1],  # NAV-SAT x2
        ["parse", f(b"\x0a", b"\x36", bytes([0, 1, 0, 0, 1, 2, 3, 4]) + bytes(40)), 0, 1],         # MON-COMMS nested
        ["parse", f(b"\x06", b"\x8b", bytes([1, 0, 0, 0, 1, 0, 0x52, 0x40, 0x80, 0x25, 0, 0])), 0, 1],
        ["parse", f(b"\x06", b"\x01", b"\xf0\x01"), 3, 1],
        ["parse", f(b"\x06", b"\x00", b"\x01"), 3, 1],
        ["parse", f(b"\x10", b"\x02", bytes([1, 2, 3, 4, 0, 0x08, 0, 0, 1, 2, 3, 4])), 1, 1],      # ESF-MEAS SET
        ["parse", f(b"\x77", b"\x01", b"\x01\x02"), 0, 1],                      # unknown class -> nominal
        ["parse", f(b"\x77", b"\x01", b"\x01\x02"), 1, 1],                      # -> error
        ["parse", f(b"\x05", b"\x01", b"\x06\x01")[:-1] + b"\x00", 0, 1],         # bad checksum -> error
        ["parse", f(b"\x04", b"\x02", b"hello \xff"), 0, 1],
        ["build-kw", b"\x06\x01", 1, [["msgClass", 1], ["msgID", 3], ["rateUART1", 1]]],
        ["build-kw", b"\x06\x31", 2, [["tpIdx", 1]]],
        ["build-kw", b"\x06\x06", 1, [["datumNum", 4]]],
        ["build-kw", b"\x06\x06", 1, [["majA", 6378137.0], ["flat", 298.257223563]]],
        ["build-kw", b"\x13\x40", 1, [["type", 1], ["lat", 6.7305985], ["lon", -2.5]]],
        ["build-kw", b"\x13\x40", 1, [["type", "x"]]],                         # failing construct
        ["build-kw", b"\x06\x01", 1, [["msgClass", 300]]],                     # overflow -> error
        ["build-kw", b"\x01\x07", 0, [["lat", 52.5], ["numSV", 12], ["gnssFixOk", 1]]],
        ["build-kw", b"\x06\x3e", 1, [["numConfigBlocks", 2], ["gnssId_01", 0], ["gnssId_02", 6], ["enable_02", 1]]],
        ["build-kw", b"\x0a\x31", 0, [["version", 0], ["numRfBlocks", 1]]],     # MON-SPAN: spectrum left at its default
        ["build-kw", b"\x02\x73", 1, [["version", 1]]],                        # RXM-QZSSL6: msgBytes default
        ["build-kw", b"\x0a\x31", 0, [["version", 0], ["numRfBlocks", 2]]],
        ["build-payload", b"\x06\x01", 1, b"\x01\x03\x00\x01\x00\x00\x00\x00"],
        ["build-payload", b"\x99\x01", 1, b"\x01"],
        ["config", "set", 1, 0, [["CFG_UART1_BAUDRATE", 9600], [0x40520001, 115200]]],
        ["config", "del", 4, 0, [["CFG_UART1_BAUDRATE"], [0x40520001]]],
        ["config", "poll", 1, 0, [[0x2091FFFF]]],
        ["config", "set", 1, 0, [["CFG_NO_SUCH_KEY", 1]]],
        ["helper", "cfgkey2name", 0x20930001],
        ["helper", "cfgkey2name", 0x30FF0001],
        ["helper", "val2bytes", 513, "U002"],
        ["parse", f(b"\x0a", b"\x31", bytes([0, 1, 0, 0]) + bytes(range(256)) + bytes(16)), 0, 1],   # MON-SPAN array
        ["parse", f(b"\x02", b"\x73", bytes(14) + bytes(range(250))), 0, 1],                        # RXM-QZSSL6 array
        ["parse", f(b"\x0b", b"\x30", bytes(range(40))), 0, 1],                  # AID-ALM GET: 8 data words
        ["parse", f(b"\x0b", b"\x30", b"\x05"), 2, 1],                          # AID-ALM POLL: svid
        ["parse", f(b"\x0b", b"\x31", b"\x07"), 2, 1],
        ["parse", f(b"\x01", b"\x60", bytes(range(16))), 0, 1],                  # NAV-AOPSTATUS / -L
        ["parse", f(b"\x01", b"\x60", bytes(range(20))), 0, 1],
        ["parse", f(b"\x06", b"\x8b", bytes([1, 0, 0, 0, 1, 0, 0x01, 0x10, 0x01])), 0, 1],   # undocumented key
        ["config", "set", 1, 0, [["CFG_0x10010001", b"\x01"]]],                   # not a database name -> error
        ["helper", "cfgkey2name", 0x10010001],
        ["parse", f(b"\x06", b"\x8b", bytes([1, 0, 0, 0]) + (0x10340014).to_bytes(4, "little") + b"\x01"), 0, 1],  # aliased key
        ["helper", "cfgkey2name", 0x10340014],
        # values that compare (and hash) equal but encode differently or are refused:
        # +0.0 / -0.0 / 0 / False and 1 / 1.0 / True - after one another, same field
        ["build-kw", b"\x06\x06", 1, [["dX", 0.0], ["dY", 0.0]]],
        ["build-kw", b"\x06\x06", 1, [["dX", -0.0], ["majA", -0.0]]],
        ["build-kw", b"\x06\x06", 1, [["dX", 0], ["majA", 0]]],
        ["helper", "val2bytes", 0.0, "R004"],
        ["helper", "val2bytes", -0.0, "R004"],
        ["helper", "val2bytes", -0.0, "R008"],
        ["helper", "val2bytes", 0.0, "R008"],
        ["helper", "val2bytes", 1, "U001"],
        ["helper", "val2bytes", 1.0, "U001"],
        ["helper", "val2bytes", True, "U001"],
        ["helper", "val2bytes", 1.0, "R004"],
        ["helper", "val2bytes", 1, "R004"],
        ["helper", "val2bytes", 0, "I002"],
        ["helper", "val2bytes", -0.0, "I002"],
        ["config", "set", 1, 0, [["CFG_TP_DUTY_TP1", 0.0]]],
        ["config", "set", 1, 0, [["CFG_TP_DUTY_TP1", -0.0]]],
        ["config", "set", 1, 0, [["CFG_TP_DUTY_TP1", 0]]],
        ["config", "set", 1, 0, [["CFG_UART1_BAUDRATE", 9600.0]]],
        ["config", "set", 1, 0, [["CFG_UART1_ENABLED", True]]],
        ["config", "set", 1, 0, [["CFG_UART1_ENABLED", 1]]],
        ["build-kw", b"\x06\x01", 1, [["msgClass", 1.0]]],
        ["build-kw", b"\x06\x01", 1, [["msgClass", True], ["msgID", 1]]],
        ["stream", f(b"\x05", b"\x01", b"\x06\x01") + b"$GNGLL,5327.04319,N,00214.41396,W,223232.00,A,A*68\r\n"
         + f(b"\x06", b"\x31", b"\x00") + b"\xd3\x00\x00", 0],
    ]
    return ops


def probe_digest():
    res = [run_op(op) for op in probe_ops()]
    return hashlib.blake2b("\n".join(res).encode(), digest_size=12).hexdigest(), res


_BASELINE = {}
_OPLOG = []  # every history operation executed in this process, in order (bounded)


def _in_child(fn, timeout=120):
    """Run fn() in a forked child of this (pristine) process and return its
    JSON-able result."""
    import json
    import select

    r, w = os.pipe()
    pid = os.fork()
    if pid == 0:
        try:
            os.close(r)
            try:
                data = json.dumps(fn())
            except BaseException as err:  # noqa
                data = json.dumps({"__error__": repr(err)})
            with os.fdopen(w, "w") as fh:
                fh.write(data)
        finally:
            os._exit(0)
    os.close(w)
    chunks = []
    with os.fdopen(r, "r") as fh:
        ready, _, _ = select.select([fh], [], [], timeout)
        if ready:
            chunks.append(fh.read())
    os.waitpid(pid, 0)
    import json as _j

    return _j.loads("".join(chunks)) if chunks and chunks[0] else {"__error__": "no result from child"}


def isolated_baseline():
    """Each probe executed alone in a pristine process (fork taken before any
    library operation ran in this process).  Computed once per process, so it
    must be requested before the first operation."""
    if "iso" not in _BASELINE:
        ops = probe_ops()
        _BASELINE["iso"] = [_in_child(lambda op=op: run_op(op)) for op in ops]
    return _BASELINE["iso"]


def baseline():
    """Probe results computed by a fresh interpreter on the same tree."""
    if "d" not in _BASELINE:
        code = ("import sys; sys.path.insert(0, %r); sys.path.insert(1, %r); sys.path.append(%r);"
                "from vp.props import c13; import json; d, r = c13.probe_digest();"
                "print('BASELINE ' + json.dumps([d, r]))" % (core.REPO_SRC, core.VERIF, core.DEPS))
        env = dict(os.environ, PYTHONHASHSEED="0")
        r = subprocess.run([sys.executable, "-c", code], capture_output=True, text=True, env=env, timeout=300)
        line = [ln for ln in r.stdout.splitlines() if ln.startswith("BASELINE ")]
        if r.returncode != 0 or not line:
            raise core.HarnessError(f"baseline subprocess failed: {r.stderr[-400:]}")
        import json

        d, res = json.loads(line[-1][9:])
        _BASELINE["d"], _BASELINE["r"] = d, res
    return _BASELINE["d"], _BASELINE["r"]


# ------------------------------------------------------------------ (b) capture
class FdCapture:
    def __enter__(self):
        sys.stdout.flush()
        sys.stderr.flush()
        self.files = [tempfile.TemporaryFile(), tempfile.TemporaryFile()]
        self.saved = [os.dup(1), os.dup(2)]
        os.dup2(self.files[0].fileno(), 1)
        os.dup2(self.files[1].fileno(), 2)
        return self

    def __exit__(self, *exc):
        try:
            sys.stdout.flush()
            sys.stderr.flush()
        finally:
            os.dup2(self.saved[0], 1)
            os.dup2(self.saved[1], 2)
            os.close(self.saved[0])
            os.close(self.saved[1])
        self.out = []
        for f in self.files:
            f.seek(0)
            self.out.append(f.read())
            f.close()
        return False


# ------------------------------------------------------------------ checks
SET_VALUES = [0, 1, -1, 3.5, "x", b"\x00", None, [1], True]


def make_message(spec):
    import pyubx2

    if spec[0] == "parse":
        return pyubx2.UBXReader.parse(bytes(spec[1]), msgmode=spec[2], parsebitfield=spec[3])
    return pyubx2.UBXMessage(bytes(spec[1])[0:1], bytes(spec[1])[1:2], spec[2], **dict(spec[3]))


def snapshot(m):
    try:
        ser = m.serialize()
    except Exception as err:  # noqa
        ser = f"<serialize raised {type(err).__name__}>"
    try:
        txt = str(m) + "|" + repr(m)
    except Exception as err:  # noqa
        txt = f"<str/repr raised {type(err).__name__}>"
    return ser, [(k, repr(v)) for k, v in vars(m).items()], txt


def python_protocols(m):
    """What Python itself does with objects - hashing, comparing, copying, pickling,
    formatting: none of it may change the message, and a copy is the same message.
    -> [(what, detail)] problems."""
    import copy
    import pickle

    probs = []
    before = snapshot(m)
    made = []
    for what, fn in (("hash", lambda: hash(m)), ("in-set", lambda: m in {m}), ("dict-key", lambda: {m: 1}[m]),
                     ("eq", lambda: (m == m, m != 1, m == None)),  # noqa: E711
                     ("bool", lambda: bool(m)), ("format", lambda: format(m)), ("dir", lambda: dir(m)),
                     ("copy", lambda: made.append(("copy.copy", copy.copy(m)))),
                     ("deepcopy", lambda: made.append(("copy.deepcopy", copy.deepcopy(m)))),
                     ("pickle", lambda: made.append(("pickle round trip", pickle.loads(pickle.dumps(m)))))):
        try:
            fn()
        except Exception:  # noqa - whether an operation is supported is not the point
            continue
        now = snapshot(m)
        if now != before:
            probs.append((f"changed-by:{what}", f"{what} changed the message: {str(now)[:120]} vs {str(before)[:120]}"))
            before = now
    for how, c in made:
        try:
            same = (c.serialize() == m.serialize() and str(c) == str(m)
                    and [(k, repr(v)) for k, v in C.public_attrs(c)] == [(k, repr(v)) for k, v in C.public_attrs(m)])
        except Exception as err:  # noqa
            same = False
            how += f" ({type(err).__name__})"
        if not same:
            probs.append((f"copy-differs:{how.split(' ')[0]}", f"{how} of {str(m)[:80]} is a different message"))
    return probs


def check(case) -> core.Out:
    if isinstance(case, dict) and case.get("kind") == "race":
        from vp.props import racing

        return racing.check_race(PROP, case)
    import pyubx2

    k = case["kind"]
    if k == "immut":
        out = core.Out(classes=[case["op"], f"name={case['namekind']}"], dig=core.digest(case))
        try:
            m = make_message(case["msg"])
        except Exception:  # noqa
            out.classes = ["skipped:message-not-built"]
            return out
        names = list(vars(m))
        nk = case["namekind"]
        if nk == "existing":
            pub = [n for n in names if not n.startswith("_")]
            if not pub:
                out.classes = ["skipped:no-public-attribute"]
                return out
            name = pub[case["pick"] % len(pub)]
        elif nk == "private":
            priv = [n for n in names if n.startswith("_")]
            name = priv[case["pick"] % len(priv)]
        elif nk == "property":
            props = ["identity", "length", "payload", "msg_cls", "msg_id", "msgmode", "serialize"]
            name = props[case["pick"] % len(props)]
        else:
            name = ["brandNew", "x", "_hidden", "payload2", "__dict__x"][case["pick"] % 5]
        before = snapshot(m)
        out.nontrivial = nk in ("existing", "private")
        out.sample = {"message": case["msg"][0], "attribute": name, "op": case["op"]}
        key = f"{PROP}|{case['op']}|{nk}|"
        try:
            if case["op"] == "setattr":
                setattr(m, name, SET_VALUES[case["value"] % len(SET_VALUES)])
            else:
                delattr(m, name)
            out.viol.append((key + "allowed", f"{case['op']}({name!r}) on {before[0][:24]!r:.60} did not raise"))
        except pyubx2.UBXMessageError:
            pass
        except AttributeError as err:
            if not (case["op"] == "delattr" and nk in ("new", "property")):
                out.viol.append((key + "wrong-exception:AttributeError", f"{case['op']}({name!r}): {err!r}"))
        except Exception as err:  # noqa
            out.viol.append((key + f"wrong-exception:{type(err).__name__}", f"{case['op']}({name!r}): {err!r}"))
        after = snapshot(m)
        if after != before:
            out.viol.append((key + "state-changed", f"{case['op']}({name!r}) changed the message "
                                                    f"(serialize/vars differ)"))
        for what, detail in python_protocols(m):
            out.viol.append((f"{PROP}|python-protocol|{what}", detail))
        return out
    if k == "silence":
        ops = case["ops"]
        out = core.Out(classes=[], n=len(ops), nt=len(ops), counts={"silence-op": len(ops)},
                       dig=core.digest(ops))
        out.nontrivial = True
        before = table_digests()
        with FdCapture() as cap:
            for op in ops:
                run_op(op)
        after = table_digests()
        for i, stream in enumerate(("stdout", "stderr")):
            if cap.out[i]:
                # find the first operation that writes
                culprit = None
                for op in ops:
                    with FdCapture() as c1:
                        run_op(op)
                    if c1.out[i]:
                        culprit = op
                        break
                out.viol.append((f"{PROP}|{stream}", f"{cap.out[i][:80]!r} written to {stream} by "
                                                     f"{str(core.jenc(culprit))[:160]}"))
        for name in before:
            if before[name] != after[name]:
                out.viol.append((f"{PROP}|tables-changed:{name}", f"table {name} was modified by the corpus"))
        out.sample = {"operations": len(ops), "first": str(core.jenc(ops[0]))[:120] if ops else None}
        return out
    if k == "history":
        ops = case["ops"]
        want_r = isolated_baseline()
        want_d = hashlib.blake2b("\n".join(map(str, want_r)).encode(), digest_size=12).hexdigest()
        out = core.Out(classes=["history"], dig=core.digest(ops))
        if not case.get("replay_log"):
            # state leaked from histories run earlier in this process?  Then the
            # whole operation log is the (replayable) history that exposes it.
            pre_d, pre_r = probe_digest()
            if pre_r != want_r:
                idx = next((i for i, (a, b) in enumerate(zip(pre_r, want_r)) if a != b), -1)
                log = list(_OPLOG)
                _OPLOG.clear()
                out.viol.append((f"{PROP}|history-dependent",
                                 f"after the {len(log)} operations run so far in this process (and the probes before "
                                 f"it), probe #{idx} ({str(core.jenc(probe_ops()[idx]))[:90]}) gives "
                                 f"{pre_r[idx][:80]!r} but {str(want_r[idx])[:80]!r} when run alone in a fresh process"))
                out.replay_case = {"kind": "history", "ops": log, "replay_log": True}
                return out
        # (light: the constants of every module and the probes after each history, the full
        #  digest of the tables for one history in sixteen)
        digests = constants_digests if case.get("light") and out.dig % 16 else table_digests
        before = digests()
        results = [run_op(op) for op in ops]
        _OPLOG.extend(ops)
        del _OPLOG[:-600]
        got_d, got_r = probe_digest()
        after = digests()
        failing = any(r.startswith("exc:") for r in results)
        variant = any(op[0] in ("parse", "build-kw", "build-payload") and bytes(op[1])[-8:-6] != b"" for op in ops)
        out.nontrivial = failing and len(ops) >= 2
        if out.nontrivial:
            out.classes.append("history:nontrivial")
        out.sample = {"history_len": len(ops), "ops": [op[0] for op in ops][:12], "failing_op_present": failing}
        if got_r != want_r:
            idx = next((i for i, (a, b) in enumerate(zip(got_r, want_r)) if a != b), -1)
            out.viol.append((f"{PROP}|history-dependent",
                             f"probe #{idx} ({str(core.jenc(probe_ops()[idx]))[:100]}) gives {got_r[idx][:80]!r} after the "
                             f"history but {want_r[idx][:80]!r} in a fresh process"))
        for name in before:
            if before[name] != after[name]:
                out.viol.append((f"{PROP}|tables-changed:{name}", f"table {name} modified by an operation history"))
        return out
    if k == "coldstart":
        # 8 threads released together in a *pristine* forked child, each running the
        # same probe operation as its very first library call
        op = case["op"]
        want = isolated_baseline()[case["probe"]] if "probe" in case else _in_child(lambda: run_op(op))

        def race():
            res = [None] * 8
            sys.setswitchinterval(1e-6)
            bar = threading.Barrier(8)

            def work(i):
                bar.wait()
                res[i] = run_op(op)

            ths = [threading.Thread(target=work, args=(i,)) for i in range(8)]
            for t_ in ths:
                t_.start()
            for t_ in ths:
                t_.join()
            return res

        got = _in_child(race)
        out = core.Out(classes=["threads", "coldstart"], dig=core.digest(op))
        out.nontrivial = True
        out.sample = {"coldstart_op": str(core.jenc(op))[:100]}
        if isinstance(got, dict) or any(g != want for g in got):
            bad = got if isinstance(got, dict) else next(g for g in got if g != want)
            out.viol.append((f"{PROP}|thread-result-differs",
                             f"8 threads starting cold on {str(core.jenc(op))[:90]}: one got {str(bad)[:80]!r}, "
                             f"a single thread gets {str(want)[:80]!r}"))
        return out
    if k == "threads":
        jobs = case["jobs"]  # list of op lists, one per thread
        seq = [[run_op(op) for op in lst] for lst in jobs]
        res = [None] * len(jobs)
        old = sys.getswitchinterval()
        sys.setswitchinterval(1e-6)
        try:
            start = threading.Barrier(len(jobs))

            def work(i):
                start.wait()
                res[i] = [run_op(op) for op in jobs[i]]

            ths = [threading.Thread(target=work, args=(i,)) for i in range(len(jobs))]
            for t in ths:
                t.start()
            for t in ths:
                t.join()
        finally:
            sys.setswitchinterval(old)
        out = core.Out(classes=["threads"], dig=core.digest(jobs), n=sum(len(j) for j in jobs))
        out.nontrivial = True
        out.sample = {"threads": len(jobs), "ops_per_thread": [len(j) for j in jobs]}
        for i, (a, b) in enumerate(zip(seq, res)):
            if a != b:
                j = next(x for x in range(len(a)) if b is None or a[x] != b[x])
                out.viol.append((f"{PROP}|thread-result-differs",
                                 f"thread {i} op {j} ({str(core.jenc(jobs[i][j]))[:100]}): concurrent result differs "
                                 f"from the sequential one"))
                break
        return out
    raise ValueError(k)


# ------------------------------------------------------------------ generators
@st.composite
def op_for_target(draw, t, kinds=("parse", "build-payload", "build-kw")):
    kind = draw(st.sampled_from(list(kinds)))
    if kind == "build-kw" and (G.audit_fatal(t.defn) or not c16.kw_constructible(t)):
        kind = "parse"
    if kind == "build-kw":
        forced = catalog.forced_for_kw(t) or {}
        nodes = draw(layout.instances(t.defn, mode=t.mode, clsid=t.clsid, forced=forced, zero_reserved=True,
                                      max_payload=400, big_counts=False, finite_floats=True))
        kw = {}
        for name, spec in G.expect(nodes, 1):
            if name.startswith("_"):
                continue
            kw[name] = spec[2] if spec[0] == "val" else (spec[2] * spec[3] if spec[0] == "scaled" else 0)
        for n_, v_ in c16.nominal_kwargs(t, nodes).items():
            kw.setdefault(n_, v_)
        if draw(st.integers(0, 5)) == 0 and kw:  # make it a failing construct
            nm = sorted(kw)[draw(st.integers(0, len(kw) - 1))]
            kw[nm] = draw(st.sampled_from(["bad", None, 10 ** 40, -1, 2.5, b"\x00"]))
        return ["build-kw", t.clsid, t.mode, [[k, v] for k, v in kw.items()]]
    pk, payload = draw(gframes.payload_for(t, max_payload=300))
    if kind == "build-payload":
        if draw(st.integers(0, 2)) == 0 and not G.audit_fatal(t.defn):
            # "any other keyword parms are ignored" when payload is given (constructor docstring)
            names = [k_ for k_, v_ in t.defn.items() if isinstance(v_, str)][:3] or ["version"]
            return ["build-payload", t.clsid, t.mode, payload, [[names[0], 1], ["parsebitfield", draw(st.booleans())]]]
        return ["build-payload", t.clsid, t.mode, payload]
    return ["parse", codec.ubx_frame(t.clsid[0:1], t.clsid[1:2], payload),
            draw(st.sampled_from([t.mode, t.mode, 3, 0])), draw(st.sampled_from([1, 0]))]


@st.composite
def sibling_ops(draw):
    """Operations on every definition (all modes and variants) of one class/ID,
    in a drawn order - caches keyed without the mode or the variant show here."""
    targets = C.cat()[0]
    t = targets[draw(st.integers(0, len(targets) - 1))]
    sibs = [x for x in targets if x.clsid == t.clsid]
    order = draw(st.permutations(sibs))
    return [draw(op_for_target(x, kinds=("parse", "parse", "build-payload"))) for x in order[:4]]


def related_history(case):
    """Strategy of operation lists related to a case: operations on every mode /
    variant of the case's class/ID (intact, damaged + VALNONE, SETPOLL, failing
    keyword constructions) mixed with unrelated ones."""
    targets = C.cat()[0]
    clsid = None
    if isinstance(case, dict) and case.get("clsid") is not None:
        clsid = bytes(case["clsid"])
    sibs = [t for t in targets if t.clsid == clsid] if clsid else []

    @st.composite
    def one(draw):
        if sibs and draw(st.integers(0, 3)) != 0:
            t = sibs[draw(st.integers(0, len(sibs) - 1))]
            op = draw(op_for_target(t))
            if op[0] == "parse" and draw(st.booleans()):
                fr = bytes(op[1])
                dmg = draw(st.sampled_from(["cut", "extend", "flip", "none"]))
                if dmg == "cut" and len(fr) > 3:
                    fr = fr[: draw(st.integers(4, len(fr) - 1)) if len(fr) > 5 else len(fr) - 1]
                elif dmg == "extend":
                    fr = fr + draw(st.binary(min_size=1, max_size=4))
                elif dmg == "flip" and len(fr) > 8:
                    i = draw(st.integers(6, len(fr) - 1))
                    fr = fr[:i] + bytes([fr[i] ^ 0x41]) + fr[i + 1:]
                return ["parse", fr, draw(st.sampled_from([t.mode, 3, 3])), op[3], 0]
            return op
        return draw(any_op())

    return st.lists(one(), min_size=1, max_size=4)


def alias_items():
    """(name, value) for every name of a key ID that is stored under several names."""
    import pyubx2

    byid = {}
    for n, (k, t) in pyubx2.UBX_CONFIG_DATABASE.items():
        byid.setdefault(k, []).append((n, t))
    out = []
    for k, lst in byid.items():
        if len(lst) > 1:
            for n, t in lst:
                out.append([n, codec.value_of(t, G.zero_raw(t)) if t[0] != "L" else 1])
    return out


def any_op():
    targets = C.cat()[0]
    pick = st.integers(0, len(targets) - 1).flatmap(lambda i: op_for_target(targets[i]))
    cfg = st.tuples(st.sampled_from(["set", "del", "poll"]), st.integers(0, 7), st.integers(0, 3),
                    st.lists(st.sampled_from([["CFG_UART1_BAUDRATE", 9600], [0x40520001, 115200],
                                              ["CFG_NAVSPG_DYNMODEL", 4], ["CFG_BOGUS", 1], [0x10990001, b"\x01"]]
                                             + alias_items()),
                             max_size=4)).map(lambda t: ["config", t[0], t[1], t[2], t[3]])
    strm = streams.garbage_streams(5).map(lambda it: ["stream", streams.stream_bytes(it), 0])
    scr = st.sampled_from([
        ["build-kw", b"\x0a\x31", 0, [["version", 0], ["numRfBlocks", 1]], "scribble"],
        ["build-kw", b"\x02\x73", 1, [["version", 1]], "scribble"],
        ["build-kw", b"\x02\x73", 0, [["version", 1]], "scribble"],
        ["parse", codec.ubx_frame(b"\x0a", b"\x31", bytes([0, 1, 0, 0]) + bytes(range(256)) + bytes(16)), 0, 1, "scribble"],
        ["parse", codec.ubx_frame(b"\x02", b"\x73", bytes(14) + bytes(range(250))), 0, 1, "scribble"],
    ])
    return st.one_of(pick, pick, pick, cfg, strm, scr)


def run_shard(spec, ctx, acc):
    if spec.get("what") == "atheris":
        from vp.props import c08

        prop_ = c08.PROP
        try:
            c08.PROP = PROP  # (the campaign driver is shared; it takes the property from the module)
            return c08.run_atheris(spec, ctx, acc)
        finally:
            c08.PROP = prop_
    if spec.get("what") == "race":
        # steady-state concurrency (see vp/props/racing.py)
        for suite in spec["suites"]:
            case = {"kind": "race", "suite": suite, "seconds": 1.2 if ctx["tier"] == "quick" else 20}
            core.handle(acc, check(case), case, set(ctx["known"]))
        return
    known = set(ctx["known"])
    quick = ctx["tier"] == "quick"
    targets = C.cat()[0]
    what = spec["what"]
    if what == "immut":
        for ti in spec["targets"]:
            t = targets[ti]
            if G.audit_fatal(t.defn):
                continue
            strat = st.tuples(op_for_target(t, kinds=("parse", "build-kw")), st.sampled_from(["setattr", "delattr"]),
                              st.sampled_from(["existing", "existing", "private", "property", "new"]),
                              st.integers(0, 200), st.integers(0, 20)).map(
                lambda x: {"kind": "immut", "msg": x[0], "op": x[1], "namekind": x[2], "pick": x[3], "value": x[4]})
            core.hyp_search(acc, strat, check, seed=core.derive(ctx["seed"], PROP, "i", t.label),
                            max_examples=14 if quick else 150, known=known, rounds=2)
        return
    if what == "silence":
        for ti in spec["targets"]:
            t = targets[ti]
            if G.audit_fatal(t.defn):
                continue
            def lenient(ops):
                # each parsed frame again with validation switched off and its checksum, or
                # its length field, damaged (accepted or refused - in silence either way)
                extra = []
                for op in ops:
                    if op[0] == "parse" and len(op) == 4 and len(op[1]) >= 8:
                        f = bytes(op[1])
                        extra.append(["parse", f[:-1] + bytes([f[-1] ^ 0x01]), op[2], op[3], 0])
                        extra.append(["parse", f[:4] + bytes([(f[4] + 1) & 0xFF]) + f[5:], op[2], op[3], 0])
                return {"kind": "silence", "ops": ops + extra}

            strat = st.lists(op_for_target(t), min_size=3, max_size=6).map(lenient)
            core.hyp_search(acc, strat, check, seed=core.derive(ctx["seed"], PROP, "s", t.label),
                            max_examples=2 if quick else 12, known=known, rounds=1, shrink=False)
        return
    if what == "per-target":
        isolated_baseline()  # before any operation runs in this process
        for ti in spec["targets"]:
            t = targets[ti]
            strat = st.lists(op_for_target(t, kinds=("parse", "parse", "build-payload", "build-kw")), min_size=2,
                             max_size=4).map(lambda ops: {"kind": "history", "ops": ops, "light": True})
            before = acc.evaluations
            core.hyp_search(acc, strat, check, seed=core.derive(ctx["seed"], PROP, "pt", t.label),
                            max_examples=5 if quick else 60, known=known, rounds=1)
            acc.classes["history:per-definition"] += acc.evaluations - before
        return
    if what == "history":
        isolated_baseline()  # before any operation runs in this process
        strat = st.tuples(st.lists(any_op(), min_size=1, max_size=10 if quick else 30),
                          st.lists(sibling_ops(), max_size=2)).map(
            lambda t: {"kind": "history", "ops": t[0] + [o for grp in t[1] for o in grp]})
        core.hyp_search(acc, strat, check, seed=core.derive(ctx["seed"], PROP, "h", spec["part"]),
                        max_examples=40 if quick else 800, known=known, rounds=2)
        return
    isolated_baseline()
    for i, op in enumerate(probe_ops()):
        if i % 2 == spec["part"] % 2:
            for _rep in range(2 if quick else 6):
                case = {"kind": "coldstart", "op": op, "probe": i}
                core.handle(acc, core.checked(check, case), case, known)
    strat = st.lists(st.lists(any_op(), min_size=5, max_size=25), min_size=8, max_size=8).map(
        lambda jobs: {"kind": "threads", "jobs": jobs})
    core.hyp_search(acc, strat, check, seed=core.derive(ctx["seed"], PROP, "t", spec["part"]),
                    max_examples=10 if quick else 120, known=known, rounds=1, shrink=False)
