"""Message types registered by the application.

The payload tables, UBX_MSGIDS and UBX_CLASSES are exported so that applications can
add message types of their own (newer firmware, proprietary messages).  A registered
definition written in the documented grammar is a message type like any other: the
parse (C02) and construct (C03) relations hold for it.  The definitions below use
combinations of the grammar that no shipped definition happens to use (a bitfield
inside a group inside a group, scaled and signed members two levels down, byte
strings and arrays inside groups, a variable-by-size group of bitfields).  They stay
within what the library's size arithmetic supports (no scaled member in a
variable-by-size group: `_calc_num_repeats` sizes members by their type name).

`registered(name)` puts one of them into the live tables - after a frame of that
class/ID was already met while it was still unknown - and takes it out again.
"""

import contextlib

from vp.ref import catalog
from vp.ref import variants as V

U1, U2, U4, I1, I2, I4, X1, X2, X4, R4, C6, A4 = ("U001", "U002", "U004", "I001", "I002", "I004", "X001", "X002", "X004",
                                                  "R004", "C006", "A004")

DEFS = {
    # a flags byte per slot of a port (bitfield inside a group inside a group)
    "APP-PORTS": (b"\x7a\x01", V.GET, {
        "version": U1, "nPorts": U1, "reserved0": U2,
        "ports": ("nPorts", {
            "portId": U2, "nSlots": U1, "spare": U1,
            "slots": (4, {
                "state": (X1, {"active": U1, "kind": "U003", "prio": "U004"}),
                "level": [I2, 0.01],
            }),
        }),
    }),
    # scaled, signed and floating members one level down; byte string, text and array in a group
    "APP-TRACK": (b"\x7a\x02", V.GET, {
        "iTOW": U4, "numTrk": U1, "flags": (X1, {"valid": U1, "src": "U002", "reserved1": "U005"}), "reserved0": U2,
        "trk": ("numTrk", {
            "lat": [I4, 1e-7], "vel": [I2, 1e-3], "snr": R4, "tag": C6, "hist": A4,
            "status": (X2, {"locked": U1, "halfCyc": U1, "qual": "U003", "chan": "U008"}),
        }),
    }),
    # a command (SET) with a variable-by-size group of bitfields
    "APP-MASKS": (b"\x7a\x03", V.SET, {
        "version": U1, "reserved0": "U003",
        "group": ("None", {"mask": (X4, {"enable": U1, "reserved2": "U007", "rate": "U008", "id": "U016"}), "step": U2}),
    }),
}


@contextlib.contextmanager
def registered(name):
    """Put DEFS[name] into the exported tables (and the harness' catalogue index)."""
    import pyubx2

    from vp.props import common as C

    clsid, mode, defn = DEFS[name]
    tab = {V.GET: pyubx2.UBX_PAYLOADS_GET, V.SET: pyubx2.UBX_PAYLOADS_SET}[mode]
    index = C.cat()[3]
    t = catalog.Target(mode, clsid, name, defn, name)
    saved_cls = pyubx2.UBX_CLASSES.get(clsid[0:1])
    pyubx2.UBX_CLASSES[clsid[0:1]] = "APP"
    pyubx2.UBX_MSGIDS[clsid] = name
    tab[name] = defn
    index[(mode, clsid, name)] = t
    try:
        yield t
    finally:
        tab.pop(name, None)
        pyubx2.UBX_MSGIDS.pop(clsid, None)
        if saved_cls is None:
            pyubx2.UBX_CLASSES.pop(clsid[0:1], None)
        else:
            pyubx2.UBX_CLASSES[clsid[0:1]] = saved_cls
        index.pop((mode, clsid, name), None)


def sight_unknown(name):
    """Meet the class/ID while it is still unknown (parsed as a nominal / refused, built as
    an unknown type): none of this may be remembered once the type is registered."""
    import pyubx2

    from vp.ref import codec

    clsid, mode, _defn = DEFS[name]
    fr = codec.ubx_frame(clsid[0:1], clsid[1:2], bytes(8))
    for fn in (lambda: pyubx2.UBXReader.parse(fr, msgmode=mode), lambda: str(pyubx2.UBXReader.parse(fr, msgmode=0)),
               lambda: pyubx2.UBXMessage(clsid[0:1], clsid[1:2], mode, payload=bytes(8)).identity,
               lambda: pyubx2.UBXMessage(clsid[0:1], clsid[1:2], 0, version=1)):
        try:
            fn()
        except Exception:  # noqa
            pass
