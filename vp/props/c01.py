"""C01 - parse o serialize is the identity on every accepted well-formed frame.

Domain   well-formed frames b5 62 cls id len payload ck: every definition target
         x payload kinds {conforming, truncated, extended, mutated, random,
         empty}; undocumented IDs and unknown classes; an enumerated sweep of
         all 65536 class/ID pairs; x msgmode {GET,SET,POLL,SETPOLL} x bitfield.
Oracle   round trip: if parse(f) returns m then m.serialize() == f, msg_cls /
         msg_id / length / payload equal the frame's fields (frames built by an
         independent framer), and eval(repr(m)).serialize() == f.  A UBX*Error
         is a legal outcome (the frame was not accepted).
"""

from hypothesis import strategies as st

from vp import core
from vp.gen import frames
from vp.props import common as C
from vp.ref import codec

PROP = "C01"
LEVEL = "exploration"
TECHNIQUE = ("property-based testing (Hypothesis) with a round-trip oracle over generated "
             "well-formed frames, plus an exhaustive sweep over all 65536 class/ID pairs")
RULE = ("case = (class, ID, payload, msgmode, parsebitfield) framed by an independent framer; "
        "non-trivial = frame accepted by parse and payload non-empty; distinct by digest of "
        "(frame, msgmode, bf); classes record payload kind, class/ID kind, mode")
ASSUMPTIONS = ["frames are built by vp.ref.codec.ubx_frame (independent Fletcher-8)",
               "a UBX*Error from parse means 'not accepted' and is outside the property"]


def floors(tier):
    return {"accepted": 2000, "kind=exact": 300, "kind=short": 200, "kind=long": 200,
            "kind=empty": 200, "kind=random": 200, "id=undoc-id": 100, "id=unknown-class": 100,
            "mode=SETPOLL": 300, "len>=256": 10, "after-checksum-twin": 300, "cfgval-items": 60, "long-zero-state": 40, "size~2^k": 300,
            "byte-sweep": 100000, "special-tail": 5000,
            "twin=crc32": 80, "twin=adler32": 80, "every-length": 10000}


def plan(tier, seed):
    targets = C.cat()[0]
    idx = list(range(len(targets)))
    specs = [{"what": "targets", "targets": part} for part in C.split_round_robin(idx, 24)]
    nsweep = 8
    # the sweep covers all 65536 pairs x 16 configurations in thorough; in quick a seeded 1/16 slice
    # and the structure-like pairs x 16 configurations, every other pair in one configuration
    for i in range(nsweep):
        specs.append({"what": "sweep", "part": i, "of": nsweep})
    specs.append({"what": "race", "suites": ['parse']})
    # every payload length: all of 0..8192 and a seeded sample above in quick, all 65536 in thorough
    for i in range(12):
        specs.append({"what": "lengths", "part": i, "of": 12})
    return specs


def G_min_size(t):
    from vp.ref import grammar as G

    return 0 if G.audit_fatal(t.defn) else G.min_size(t.defn)


def _mk(clsid, payload, mode, bf, kind, idkind):
    return {"kind": "frame", "clsid": clsid, "payload": payload, "mode": mode, "bf": bf,
            "pkind": kind, "idkind": idkind}


def run_shard(spec, ctx, acc):
    if spec.get("what") == "race":
        # steady-state concurrency (see vp/props/racing.py)
        for suite in spec["suites"]:
            case = {"kind": "race", "suite": suite, "seconds": 1.2 if ctx["tier"] == "quick" else 20}
            core.handle(acc, check(case), case, set(ctx["known"]))
        return
    known = set(ctx["known"])
    tier = ctx["tier"]
    if spec["what"] == "targets":
        targets = C.cat()[0]
        n = 6 if tier == "quick" else 120
        maxp = 3000 if tier == "quick" else 65535
        for ti in spec["targets"]:
            t = targets[ti]
            strat = st.builds(
                lambda pk, mode, bf, val: dict(_mk(t.clsid, pk[1], mode, bf, pk[0], "defined"), validate=val),
                frames.payload_for(t, max_payload=maxp, big_counts=(tier != "quick")),
                st.sampled_from([t.mode, t.mode, 3, 0, 1, 2]),
                st.sampled_from([0, 1]),
                st.sampled_from([1, 1, 0]),
            )
            from vp.props import c13

            core.hyp_search(acc, strat, check, seed=core.derive(ctx["seed"], PROP, t.label),
                            max_examples=n, known=known, rounds=2, history=c13.related_history)
            if t.is_cfgval():
                # key/value messages: conforming lists of up to 100 items
                cv = st.builds(lambda p, mode, bf: dict(_mk(t.clsid, p, mode, bf, "exact", "defined"), cfgval=True),
                               frames.cfgval_payload(t.mode), st.sampled_from([t.mode, t.mode, 3]),
                               st.sampled_from([0, 1]))
                core.hyp_search(acc, cv, check, seed=core.derive(ctx["seed"], PROP, "cfgval", t.label),
                                max_examples=40 if tier == "quick" else 600, known=known, rounds=2)
            twin = st.builds(
                lambda pk, mode, bf, i, d: dict(_mk(t.clsid, pk[1], mode, bf, pk[0], "defined"), kind="twin", i=i, d=d),
                frames.payload_for(t, kind="exact", max_payload=maxp).filter(lambda pk: len(pk[1]) >= 3),
                st.sampled_from([t.mode, 3]), st.sampled_from([0, 1]), st.integers(0, 10 ** 6), st.integers(0, 254))
            if G_min_size(t) >= 3:
                core.hyp_search(acc, twin, check, seed=core.derive(ctx["seed"], PROP, "twin", t.label),
                                max_examples=2 if tier == "quick" else 20, known=known, rounds=1)
        # single-byte sweeps and special tails at each target's natural sizes
        for ti in spec["targets"]:
            for case in edge_cases(targets[ti], tier, ctx["seed"]):
                o = core.checked(check, case)
                o.classes = list(o.classes) + [case["edge"]]
                if core.handle(acc, o, case, known) and len(acc.violations) >= core.MAX_VIOL_PER_SHARD:
                    break
        # long payloads (several read/checksum blocks): sizes around multiples of 4096
        # and payloads whose running checksum state is (0, 0) at every block boundary
        if spec["name"] in ("s0", "s1", "s2", "s3"):
            k0 = int(spec["name"][1:])
            for k in range(1 + k0, 17, 4):
                for n in (4096 * k - 4, 4096 * k - 2, 4096 * k):
                    n = min(n, 65535)
                    for blk in (4096, 16384):
                        if n < blk:
                            continue
                        p = codec.zero_state_payload(b"\x04", b"\x02", n, blk, fill=k)
                        case = _mk(b"\x04\x02", p, 0, 1, "long", "defined")
                        o = core.checked(check, case)
                        o.classes = list(o.classes) + ["long-zero-state"]
                        core.handle(acc, o, case, known)
        # payload sizes at and next to every power of two from 2^8 to 2^15
        if spec["name"] in ("s4", "s5", "s6", "s7"):
            import hashlib

            k0 = int(spec["name"][1:]) - 4
            for k in range(8 + k0, 16, 4):
                for d in (-2, -1, 0, 1, 2):
                    n = (1 << k) + d
                    p = hashlib.shake_256(bytes([k, d & 0xFF])).digest(n)
                    for cid in (b"\x04\x02", b"\x77\x01", b"\x0a\x04"):
                        for mode, val in ((0, 1), (0, 0), (3, 1)):
                            case = dict(_mk(cid, p, mode, 1, "long", "defined"), validate=val)
                            o = core.checked(check, case)
                            o.classes = list(o.classes) + ["size~2^k"]
                            core.handle(acc, o, case, known)
        # undocumented IDs / unknown classes with arbitrary payloads
        odd = st.builds(
            lambda ck, p, mode, bf: _mk(ck[1], p, mode, bf, "random" if p else "empty", ck[0]),
            frames.odd_clsid(),
            st.one_of(st.just(b""), st.binary(max_size=24), st.binary(min_size=256, max_size=400)),
            st.sampled_from([0, 1, 2, 3]),
            st.sampled_from([0, 1]),
        )
        core.hyp_search(acc, odd, check, seed=core.derive(ctx["seed"], PROP, "odd", spec["name"]),
                        max_examples=120 if tier == "quick" else 3000, known=known, rounds=2)
        return
    if spec["what"] == "lengths":
        import hashlib

        part, of = spec["part"], spec["of"]
        stream = hashlib.shake_256(b"C01 lengths").digest(65535 + 64)
        if tier == "quick":
            rnd = hashlib.shake_256(b"len" + str(ctx["seed"]).encode()).digest(2 * 2500)
            lens = list(range(0, 8193)) + sorted({8193 + int.from_bytes(rnd[2 * j:2 * j + 2], "big") % (65535 - 8192)
                                                  for j in range(2500)})
        else:
            lens = list(range(0, 65536))
        for n in lens:
            if n % of != part:
                continue
            case = dict(_mk((b"\x04\x02", b"\x77\x01")[n % 2], stream[n % 61:n % 61 + n], 0, 1, "long" if n > 255 else "random",
                            "defined"), light=bool(n % 64), validate=1)
            o = check(case)
            o.classes = list(o.classes) + ["every-length"]
            o.dig = None
            o.sample = None
            if core.handle(acc, o, case, known) and len(acc.violations) >= core.MAX_VIOL_PER_SHARD:
                return
        return
    # enumerated sweep over class/ID pairs
    part, of = spec["part"], spec["of"]
    step = 16 if tier == "quick" else 1
    off = ctx["seed"] % step
    # class/ID bytes that look like structure (sync characters, other protocols'
    # preambles, line ends) get every configuration in both tiers
    special = (0xB5, 0x62, 0x24, 0x47, 0xD3, 0x00, 0x0D, 0x0A, 0xFF)
    for v in range(part, 65536, of):
        clsid = bytes([v >> 8, v & 0xFF])
        short = bytes([(v * 7 + ctx["seed"]) & 0xFF, v & 0xFF, (v >> 8) ^ 0x5A])[: 1 + v % 3]
        if step > 1 and (v // of) % step != off and not (clsid[0] in special and clsid[1] in special):
            # quick tier, outside the seeded slice: one configuration per pair, so
            # that every one of the 65536 pairs is met at least once
            payload, pk = ((b"", "empty"), (short, "random"))[(v >> 3) & 1]
            case = _mk(clsid, payload, (v + ctx["seed"]) % 4, (v >> 2) & 1, pk, "sweep")
            if core.handle(acc, core.checked(check, case), case, known):
                return
            continue
        for payload, pk in ((b"", "empty"), (short, "random")):
            for mode in (0, 1, 2, 3):
                for bf in (0, 1):
                    case = _mk(clsid, payload, mode, bf, pk, "sweep")
                    if core.handle(acc, core.checked(check, case), case, known):
                        return


TAILS = [b"\r\n", b"\n", b"\r", b"\n\r", b"\x00", b"\x00\x00", b" ", b"\t", b"\r\n\x00", b"\xff", b"\xb5\x62",
         b"$", b"\xef\xbb\xbf", b"\x1a", b"\\", b"'", b'"']


def natural_sizes(t, tier="thorough"):
    """Payload sizes the definition itself suggests: every group empty, every
    counted group with one and two members, and a few bytes beyond."""
    from vp.gen import layout
    from vp.ref import grammar as G

    if G.audit_fatal(t.defn):
        return [1, 2, 8]
    sizes = set()
    forced = {k: v for k, v in (C.catalog.forced_for(t) or {}).items() if not isinstance(v, tuple)}
    for n in (0, 1, 2) if tier != "quick" else (0, 1):
        try:
            nodes = layout.zero_instance(t.defn, mode=t.mode, clsid=t.clsid, forced=forced,
                                         counts={c: n for c in G.count_names(t.defn)})
            sizes.add(len(G.encode(nodes)))
        except Exception:  # noqa - the generator's limits are not the library's
            continue
    base = min(sizes) if sizes else 0
    sizes |= {base + 1} if tier == "quick" else {base + 1, base + 2, base + 4}
    return sorted(x for x in sizes if 0 < x <= 4000)


def edge_cases(t, tier, seed):
    """Deterministic payloads: at each natural size, every value of the last byte
    (and of the first byte at the smallest size) over an all-zero and - thorough
    tier - a pseudo-random base; special tails (line ends, NUL, quotes, sync
    characters) in place of and after the last bytes."""
    import hashlib

    sizes = natural_sizes(t, tier)
    # the upper bytes of a multi-byte repeat count: a truncated payload with a count
    # of tens of thousands costs the library ~0.2 s per parse; a few values suffice
    heavy = set()
    try:
        from vp.gen import layout
        from vp.ref import grammar as G

        if not G.audit_fatal(t.defn):
            cn = set(G.count_names(t.defn))
            z = layout.zero_instance(t.defn, mode=t.mode, clsid=t.clsid)
            for name, a, e in G.leaf_spans(z)[0]:
                if name in cn:
                    heavy |= set(range(a + 1, e))
    except Exception:  # noqa
        pass
    bases = [("zero", lambda n: bytes(n))]
    if tier != "quick":
        bases.append(("rnd", lambda n: hashlib.shake_256(t.label.encode() + bytes([seed & 0xFF])).digest(n)))
    for bname, mk in bases:
        for si, n in enumerate(sizes):
            base = mk(n)
            if bname != "zero" and heavy:
                # (the upper bytes of multi-byte repeat counts stay zero in the random base too)
                bb = bytearray(base)
                for q in heavy:
                    if q < n:
                        bb[q] = 0
                base = bytes(bb)
            pos = [n - 1] + ([0] if si == 0 and n > 1 else [])
            if tier != "quick":
                pos = sorted(set(range(min(n, 6))) | set(range(max(0, n - 6), n)))
            for p in pos:
                for v in (range(256) if p not in heavy else (1, 2, 0x80, 0xFF)):
                    if v == base[p] and (p != n - 1 or bname != "zero"):
                        continue
                    b = bytearray(base)
                    b[p] = v
                    yield dict(_mk(t.clsid, bytes(b), t.mode, 1, "exact", "defined"), edge="byte-sweep",
                               light=bool(v % 16 != 7))
            for tail in TAILS:
                body = base[: n - len(tail)] + tail
                if len(tail) <= n and sum(1 for q in heavy if q < n and body[q] > 8) == 0:
                    yield dict(_mk(t.clsid, body, t.mode, 1, "exact", "defined"), edge="special-tail")
                yield dict(_mk(t.clsid, base + tail, t.mode, si % 2, "long", "defined"), edge="special-tail")
    if tier != "quick" and any(x == "CH" for x in _leaf_types(t.defn)):
        # variable-length text: every two-byte ending
        for v in range(65536):
            yield dict(_mk(t.clsid, b"text" + bytes([v >> 8, v & 0xFF]), t.mode, 1, "exact", "defined"),
                       edge="special-tail")


def _leaf_types(defn):
    for v in defn.values():
        if isinstance(v, str):
            yield v
        elif isinstance(v, tuple) and isinstance(v[1], dict) and not isinstance(v[0], str):
            yield from _leaf_types(v[1])
        elif isinstance(v, tuple) and isinstance(v[1], dict) and v[0] in ("None",):
            yield from _leaf_types(v[1])


def twin_payload(payload, i, d):
    """A different payload of the same length with the same Fletcher checksum:
    adding (+d, -2d, +d) to three consecutive bytes leaves both running sums
    unchanged."""
    b = bytearray(payload)
    b[i] = (b[i] + d) % 256
    b[i + 1] = (b[i + 1] - 2 * d) % 256
    b[i + 2] = (b[i + 2] + d) % 256
    return bytes(b)


def check(case) -> core.Out:
    if isinstance(case, dict) and case.get("kind") == "race":
        from vp.props import racing

        return racing.check_race(PROP, case)
    import pyubx2

    clsid, payload, mode, bf = bytes(case["clsid"]), bytes(case["payload"]), case["mode"], case["bf"]
    if case.get("kind") == "twin":
        # history: a frame with the same class, ID, length and checksum but a
        # different payload is parsed immediately before the frame under test
        first = codec.ubx_frame(clsid[0:1], clsid[1:2], payload)
        how = case["d"] % 3
        twin = None
        if how == 1:
            # equal CRC-32 over class, ID, length and payload (a cheap digest someone
            # might key a cache on), different Fletcher checksum
            twin = codec.crc32_twin(clsid + len(payload).to_bytes(2, "little"), payload, case["i"])
        elif how == 2:
            twin = codec.adler_twin(payload, case["i"])  # equal Adler-32 and Fletcher-8
        payload = twin if twin is not None else codec.fletcher_twin(payload, case["i"], case["d"])
        try:
            pyubx2.UBXReader.parse(first, msgmode=mode, parsebitfield=bf)
        except Exception:  # noqa
            pass
    frame = codec.ubx_frame(clsid[0:1], clsid[1:2], payload)
    classes = [f"kind={case.get('pkind')}", f"id={case.get('idkind')}", f"mode={C.MODES[mode]}",
               f"bf={bf}", f"validate={case.get('validate', 1)}"]
    if case.get("kind") == "twin":
        classes.append("after-checksum-twin")
        classes.append(("twin=fletcher", "twin=crc32", "twin=adler32")[case["d"] % 3])
    if case.get("cfgval"):
        classes.append("cfgval-items")
    if len(payload) >= 256:
        classes.append("len>=256")
    out = core.Out(classes=classes, dig=core.digest((frame, mode, bf)))
    key = f"{PROP}|{C.MODES[mode]}|{clsid.hex()}|"
    try:
        m = C.uparse(frame, mode, case.get("validate", 1), bf)
    except C.ubx_errors():
        classes.append("rejected")
        return out
    except Exception:  # noqa - foreign exception: C08's business, frame not accepted
        classes.append("rejected-foreign")
        return out
    classes.append("accepted")
    out.nontrivial = len(payload) > 0
    out.sample = {"frame": frame[:40], "len": len(payload), "mode": C.MODES[mode], "bf": bf}

    def bad(what, detail):
        out.viol.append((key + what, detail))

    try:
        ser = m.serialize()
        if ser != frame:
            bad("serialize", f"serialize() = {ser[:40].hex()}.. != frame {frame[:40].hex()}..")
        if m.msg_cls != clsid[0:1] or m.msg_id != clsid[1:2]:
            bad("clsid", f"msg_cls/msg_id = {m.msg_cls!r}/{m.msg_id!r}")
        if m.length != len(payload):
            bad("length", f"length {m.length} != {len(payload)}")
        if (m.payload or b"") != payload:
            bad("payload", "payload property differs")
        if m.payload is not None and not isinstance(m.payload, bytes):
            bad("payload", f"payload type {type(m.payload).__name__}")
        if case.get("light"):
            return out  # sweep cases: the repr clause is evaluated on a 1/16 sample
        rp = repr(m)
        m2 = eval(rp, {"UBXMessage": pyubx2.UBXMessage, "__builtins__": {}})  # noqa: S307
        if m2.serialize() != frame:
            bad("repr", f"eval(repr(m)).serialize() differs; repr={rp[:80]}")
        if out.dig % 4 == 0:
            # the same frame handed over as a bytearray / memoryview (a receive buffer): if
            # parse accepts it, the same relation holds, also after the caller reuses the buffer
            for mk, lab in ((bytearray, "bytearray"), (lambda f: memoryview(bytearray(f)), "memoryview")):
                buf = mk(frame)
                try:
                    mb = pyubx2.UBXReader.parse(buf, msgmode=mode, parsebitfield=bf, validate=case.get("validate", 1))
                except Exception:  # noqa - not accepted in this form: outside the property
                    classes.append(f"input={lab}:rejected")
                    continue
                classes.append(f"input={lab}:accepted")
                if mb.serialize() != frame or (mb.payload or b"") != payload:
                    bad(f"input-{lab}:serialize", f"parse({lab}) serializes to {bytes(mb.serialize())[:40].hex()}")
                for i in range(len(buf)):
                    buf[i] = 0xEE
                ser2 = mb.serialize()
                if not isinstance(ser2, bytes) or ser2 != frame:
                    bad(f"input-{lab}:buffer-shared", "serialize() changes when the caller reuses the buffer it parsed from")
                m3 = eval(repr(mb), {"UBXMessage": pyubx2.UBXMessage,  # noqa: S307
                                      "__builtins__": {"bytearray": bytearray, "bytes": bytes}})
                if m3.serialize() != frame:
                    bad(f"input-{lab}:repr", "eval(repr(m)).serialize() differs")
    except Exception as err:  # noqa
        bad(f"raises:{type(err).__name__}", f"{type(err).__name__}: {err}"[:200])
    return out
