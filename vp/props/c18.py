"""C18 - scalar encodings and helper conversions are exact inverses over their domain.

Each exported helper is compared with an independent definition:
  val2bytes / bytes2val / attsiz / atttyp / nomval  vs vp.ref.codec, for every
      attribute type constant of ubxtypes_core (1- and 2-byte integer types
      exhaustively; wider ints, floats, bytes and arrays boundary + random);
      out-of-range ints and wrong-length X/C/A values must be refused;
  calc_checksum / isvalid_checksum  vs Fletcher-8 from the UBX specification;
  utc2itow / itow2utc  vs integer millisecond arithmetic;
  get_bits  vs mask-and-shift;  val2sphp  vs its defining relation;
  protocol  vs a preamble classifier over all 65536 two-byte prefixes;
  att2idx / att2name  vs the suffix rule.
"""

import datetime as dt
import math
import re

from hypothesis import strategies as st

from vp import core
from vp.gen import layout
from vp.ref import codec

PROP = "C18"
LEVEL = "exploration"
TECHNIQUE = ("exhaustive enumeration (1-/2-byte integer types, all 2-byte prefixes, all byte "
             "strings of length <= 2) and Hypothesis property-based testing against independent "
             "reference definitions of each helper")
RULE = ("case = (helper, argument values); enumerated exhaustively for small domains, "
        "boundary-biased random otherwise; non-trivial = value at/next to a type bound, with the "
        "top bit set, negative, non-finite, or (checksums) non-empty content; enumerated cases "
        "are distinct by construction, random ones by digest")
ASSUMPTIONS = [
    "type constants are those exported by pyubx2.ubxtypes_core (letter + 3-digit size, or CH)",
    "get_bits is specified for bitmask >= 1 (mask 0 would not terminate: outside the domain)",
    "times of week: millisecond-resolution datetimes from 1980-01-06 on; leap offset 18 s",
    "val2sphp is checked for |val/scale| < 1e11 (double precision keeps the 0.01 digit)",
]


def floors(tier):
    return {"codec-exhaustive": 190000, "codec": 3000, "refuse": 1500, "nomval": 40,
            "checksum": 60000, "checksum-saturated": 4000, "isvalid": 500, "itow": 20000, "get_bits": 1000, "val2sphp": 1000,
            "protocol": 65536, "att": 500,
            "text": 300, "text:chars<=width<bytes": 60}


def types():
    import pyubx2.ubxtypes_core as u

    return sorted({v for v in vars(u).values()
                   if isinstance(v, str) and (v == "CH" or codec.TYPE_RE.match(v))})


def plan(tier, seed):
    specs = [{"what": "exh-int", "t": t} for t in types()
             if t != "CH" and t[0] in codec.INT_LETTERS and codec.tsize(t) <= 2]
    specs += [{"what": "hyp", "part": i} for i in range(4)]
    specs += [{"what": "protocol"}, {"what": "cksum-exh"}]
    n = 4 if tier == "quick" else 16
    specs += [{"what": "itow", "part": i, "of": n} for i in range(n)]
    return specs


# ---------------------------------------------------------------- codec
def chk_codec(t, raw):
    """-> list of (key, detail) for one (type, raw)."""
    import pyubx2

    v = []
    if t == "CH":
        # text: only value -> bytes -> value is an identity (decoding arbitrary
        # bytes is lossy by design), so the case carries the text as UTF-8
        want_val = bytes(raw).decode("utf-8")
        want_b = bytes(raw)
    else:
        want_val = codec.value_of(t, raw)
        want_b = codec.enc_raw(t, raw)
    nan = isinstance(want_val, float) and math.isnan(want_val)
    try:
        b = pyubx2.val2bytes(want_val, t)
    except Exception as err:  # noqa
        return [(f"{PROP}|val2bytes|{t[0]}|raises", f"val2bytes({want_val!r}, {t}) raised {err!r}")]
    if not isinstance(b, bytes) or (t != "CH" and len(b) != codec.tsize(t)):
        v.append((f"{PROP}|val2bytes|{t[0]}|width", f"val2bytes({want_val!r}, {t}) -> {b!r}"))
    elif not nan and b != want_b:
        v.append((f"{PROP}|val2bytes|{t[0]}|bytes", f"val2bytes({want_val!r}, {t}) = {b.hex()} != {want_b.hex()}"))
    try:
        back = pyubx2.bytes2val(want_b, t)
    except Exception as err:  # noqa
        return v + [(f"{PROP}|bytes2val|{t[0]}|raises", f"bytes2val({want_b.hex()}, {t}) raised {err!r}")]
    ok = codec.float_same(back, want_val) if isinstance(want_val, float) else (
        back == want_val and type(back) is type(want_val))
    if not ok:
        v.append((f"{PROP}|bytes2val|{t[0]}|value", f"bytes2val({want_b.hex()}, {t}) = {back!r} != {want_val!r}"))
    return v


def chk_refuse(t, val):
    """A value the type cannot hold must be refused, not encoded."""
    import pyubx2

    try:
        b = pyubx2.val2bytes(val, t)
    except Exception:  # noqa - any refusal is fine here (C15 judges the exception type)
        return []
    how = "out-of-range"
    if not isinstance(val, int):
        how = "short" if len(val) < codec.tsize(t) else ("long" if len(val) > codec.tsize(t) else "bad-element")
    return [(f"{PROP}|val2bytes|{t[0]}|accepts-{how}",
             f"val2bytes({val!r:.60}, {t}) returned {b!r:.60} instead of refusing")]


def chk_text(t, text):
    """A fixed-width character attribute given text (str): the result has exactly the
    type's width - the UTF-8 encoding padded with NUL - or the value is refused; text
    whose encoding is longer than the width does not fit and must be refused."""
    import pyubx2

    n = codec.tsize(t)
    try:
        enc = text.encode("utf-8")
    except UnicodeEncodeError:
        enc = None
    try:
        b = pyubx2.val2bytes(text, t)
    except Exception:  # noqa - refusal (C15 judges the exception type)
        if enc is not None and len(enc) <= n:
            return [(f"{PROP}|val2bytes|C|text-refused", f"val2bytes({text!r}, {t}) refused text of {len(enc)} bytes")]
        return []
    if not isinstance(b, bytes) or len(b) != n:
        return [(f"{PROP}|val2bytes|C|text-width", f"val2bytes({text!r}, {t}) -> {b!r} ({len(b)} bytes for a width of {n})")]
    if enc is not None and b != enc.ljust(n, b"\x00"):
        return [(f"{PROP}|val2bytes|C|text-bytes", f"val2bytes({text!r}, {t}) = {b!r}, expected {enc.ljust(n, bytes(1))!r}")]
    return []


def chk_nomval(t):
    import pyubx2

    try:
        nv = pyubx2.nomval(t)
        b = pyubx2.val2bytes(nv, t)
    except Exception as err:  # noqa
        return [(f"{PROP}|nomval|{t[0]}|raises", f"nomval/val2bytes({t}) raised {err!r}")]
    want = b"" if t == "CH" else b"\x00" * codec.tsize(t)
    if b != want:
        return [(f"{PROP}|nomval|{t[0]}|nonzero", f"val2bytes(nomval({t})) = {b!r}")]
    if isinstance(nv, list) and nv:
        # the caller owns the returned value: editing it must not change what the
        # next call returns
        nv[0] = 7
        nv[-1] = 9
        try:
            b2 = pyubx2.val2bytes(pyubx2.nomval(t), t)
        except Exception as err:  # noqa
            return [(f"{PROP}|nomval|{t[0]}|raises", f"second nomval({t}) raised {err!r}")]
        if b2 != want:
            return [(f"{PROP}|nomval|{t[0]}|shared-value", f"nomval({t}) returns a shared list: after editing an "
                                                           f"earlier result its encoding is {b2[:8]!r}..")]
    out = []
    if t != "CH" and (pyubx2.attsiz(t) != codec.tsize(t) or pyubx2.atttyp(t) != t[0]):
        out.append((f"{PROP}|attsiz|{t}", f"attsiz/atttyp({t}) = {pyubx2.attsiz(t)}/{pyubx2.atttyp(t)}"))
    if t == "CH" and pyubx2.attsiz(t) != -1:
        out.append((f"{PROP}|attsiz|CH", f"attsiz(CH) = {pyubx2.attsiz(t)}"))
    return out


# ---------------------------------------------------------------- others
EPOCH = dt.datetime(1980, 1, 6)


def chk_itow(ms):
    """ms = milliseconds since the GPS epoch (UTC datetime, ms resolution)."""
    import pyubx2

    d = EPOCH + dt.timedelta(milliseconds=ms)
    try:
        wno, itow = pyubx2.utc2itow(d)
        back = pyubx2.itow2utc(itow)
    except Exception as err:  # noqa
        return [(f"{PROP}|utc2itow|raises", f"utc2itow({d!r}) raised {err!r}")]
    v = []
    if wno * 604800000 + itow - 18000 != ms:
        v.append((f"{PROP}|utc2itow|not-exact",
                  f"utc2itow({d.isoformat()}) = ({wno}, {itow}): {wno}*604800000+{itow}-18000 != {ms}"))
    if back != d.time():
        v.append((f"{PROP}|itow2utc|roundtrip", f"itow2utc(utc2itow({d.isoformat()})[1]) = {back}"))
    return v


def chk_itow_inverse(itow):
    """itow2utc against integer arithmetic for any time of week."""
    import pyubx2

    want = (EPOCH + dt.timedelta(milliseconds=itow - 18000)).time()
    try:
        got = pyubx2.itow2utc(itow)
    except Exception as err:  # noqa
        return [(f"{PROP}|itow2utc|raises", f"itow2utc({itow}) raised {err!r}")]
    if got != want:
        return [(f"{PROP}|itow2utc|value", f"itow2utc({itow}) = {got}, expected {want}")]
    return []


def chk_get_bits(b, mask):
    import pyubx2

    ctz = (mask & -mask).bit_length() - 1
    want = (int.from_bytes(b, "big") & mask) >> ctz
    try:
        got = pyubx2.get_bits(b, mask)
    except Exception as err:  # noqa
        return [(f"{PROP}|get_bits|raises", f"get_bits({b!r}, {mask}) raised {err!r}")]
    if got != want:
        return [(f"{PROP}|get_bits|value", f"get_bits({b.hex()}, {mask:#x}) = {got}, expected {want}")]
    return []


def chk_val2sphp(val, scale):
    import pyubx2

    try:
        sp, hp = pyubx2.val2sphp(val, scale)
    except Exception as err:  # noqa
        return [(f"{PROP}|val2sphp|raises", f"val2sphp({val!r}, {scale!r}) raised {err!r}")]
    q = val / scale
    tol = 0.005 + 8 * math.ulp(abs(q)) + 1e-9
    if not (isinstance(sp, int) and isinstance(hp, int)) or abs(q - (sp + hp / 100)) > tol or abs(hp) > 100:
        return [(f"{PROP}|val2sphp|relation", f"val2sphp({val!r}, {scale!r}) = ({sp}, {hp}); val/scale = {q!r}")]
    return []


def ref_protocol(p):
    import pynmeagps.nmeatypes_core as n

    if p[0:2] == b"\xb5\x62":
        return 2
    if p[0] == 0x24 and any(tk[0:1].encode() == p[1:2] for tk in n.NMEA_TALKERS):
        return 1
    if p[0] == 0xD3 and p[1] < 4:
        return 4
    return 0


def chk_att(base, idx):
    import pyubx2

    att = base + "".join(f"_{i:02d}" for i in idx)
    v = []
    try:
        nm, ix = pyubx2.att2name(att), pyubx2.att2idx(att)
    except Exception as err:  # noqa
        return [(f"{PROP}|att2idx|raises", f"{att}: {err!r}")]
    want = 0 if not idx else (idx[0] if len(idx) == 1 else tuple(idx))
    if nm != base:
        v.append((f"{PROP}|att2name|value", f"att2name({att}) = {nm!r}"))
    if ix != want:
        v.append((f"{PROP}|att2idx|value", f"att2idx({att}) = {ix!r}, expected {want!r}"))
    return v


def chk_cksum(content):
    import pyubx2

    want = codec.fletcher8(content)
    v = []
    try:
        got = pyubx2.calc_checksum(content)
    except Exception as err:  # noqa
        return [(f"{PROP}|calc_checksum|raises", f"{content[:20].hex()}: {err!r}")]
    if got != want:
        v.append((f"{PROP}|calc_checksum|value", f"calc_checksum({content[:24].hex()}) = {got.hex()} != {want.hex()}"))
    return v


def chk_isvalid(msg):
    import pyubx2

    want = msg[-2:] == codec.fletcher8(msg[2:-2])
    try:
        got = pyubx2.isvalid_checksum(msg)
    except Exception as err:  # noqa
        return [(f"{PROP}|isvalid_checksum|raises", f"{msg[:20].hex()}: {err!r}")]
    if bool(got) != want or not isinstance(got, bool):
        return [(f"{PROP}|isvalid_checksum|value", f"isvalid_checksum({msg[:24].hex()}) = {got!r}, expected {want}")]
    return []


# ---------------------------------------------------------------- dispatch
def check(case) -> core.Out:
    k = case["kind"]
    out = core.Out(classes=[k], dig=core.digest(case))
    if k == "codec":
        t, raw = case["t"], case["raw"]
        if isinstance(raw, list) and t[0] != "A":
            raw = bytes(raw)
        out.viol = chk_codec(t, raw)
        if isinstance(raw, int) and t != "CH":
            n = 8 * codec.tsize(t)
            out.nontrivial = raw < 0 or raw >> (n - 1) != 0 or raw in (0, 1) or raw >= (1 << n) - 2
            if t[0] == "R":
                out.nontrivial = True
        else:
            out.nontrivial = bool(raw)
        out.sample = {"type": t, "raw": raw if not isinstance(raw, (bytes, list)) else bytes(raw)[:16]}
    elif k == "refuse":
        out.viol = chk_refuse(case["t"], case["val"])
        out.nontrivial = True
        out.sample = {"type": case["t"], "value": repr(case["val"])[:40]}
    elif k == "text":
        out.viol = chk_text(case["t"], case["text"])
        enc = case["text"].encode("utf-8", "replace")
        out.nontrivial = len(case["text"]) != len(enc)
        out.classes = ["text"] + (["text:chars<=width<bytes"] if len(case["text"]) <= codec.tsize(case["t"]) < len(enc) else [])
        out.sample = {"type": case["t"], "text": case["text"][:20]}
    elif k == "nomval":
        out.viol = chk_nomval(case["t"])
        out.nontrivial = True
    elif k == "itow":
        out.viol = chk_itow(case["ms"])
        out.nontrivial = case["ms"] % 1000 != 0
        out.sample = {"ms_since_gps_epoch": case["ms"]}
    elif k == "itow-inv":
        out.viol = chk_itow_inverse(case["itow"])
        out.nontrivial = True
        out.classes = ["itow"]
    elif k == "get_bits":
        out.viol = chk_get_bits(bytes(case["b"]), case["mask"])
        out.nontrivial = case["mask"] & (case["mask"] - 1) != 0 or len(case["b"]) > 1
        out.sample = {"bitfield": bytes(case["b"]), "mask": case["mask"]}
    elif k == "val2sphp":
        out.viol = chk_val2sphp(case["val"], case["scale"])
        out.nontrivial = case["val"] != 0
        out.sample = {"val": case["val"], "scale": case["scale"]}
    elif k == "att":
        out.viol = chk_att(case["base"], case["idx"])
        out.nontrivial = len(case["idx"]) > 0
        out.sample = {"base": case["base"], "idx": case["idx"]}
    elif k == "checksum-long":
        import hashlib

        ln = case["len"]
        x = b"\xff" * ln if case["fill"] else hashlib.shake_256(bytes([ln & 0xFF])).digest(ln)
        return check({"kind": "checksum", "x": x})
    elif k == "checksum":
        out.viol = chk_cksum(bytes(case["x"]))
        out.nontrivial = len(case["x"]) > 0
    elif k == "isvalid":
        out.viol = chk_isvalid(bytes(case["x"]))
        out.nontrivial = True
        out.sample = {"message": bytes(case["x"])[:24]}
    elif k == "protocol":
        import pyubx2

        p = bytes(case["p"])
        got = pyubx2.protocol(p)
        want = ref_protocol(p)
        if got != want:
            out.viol = [(f"{PROP}|protocol|value", f"protocol({p.hex()}) = {got}, expected {want}")]
        out.nontrivial = want != 0
    else:
        raise ValueError(k)
    return out


def refuse_values(t):
    """Values that type t cannot represent."""
    k = t[0]
    if k in codec.INT_LETTERS:
        lo, hi = codec.int_range(t)
        return st.one_of(st.sampled_from([hi + 1, lo - 1, hi + 2, (hi + 1) * 2, lo - 12345, (hi + 1) * 10 ** 40]),
                         st.integers(hi + 1, (hi + 1) * 4), st.integers(lo * 4 - 4, lo - 1))
    n = codec.tsize(t)
    if k in "XC":
        return st.integers(0, 2 * n + 2).filter(lambda m: m != n).flatmap(
            lambda m: st.binary(min_size=m, max_size=m))
    if k == "A":
        short = st.integers(0, n - 1).flatmap(lambda m: st.lists(st.integers(0, 255), min_size=m, max_size=m))
        badel = st.tuples(st.integers(0, n - 1), st.sampled_from([256, -1, 1000, -200])).map(
            lambda iv: [0] * iv[0] + [iv[1]] + [0] * (n - iv[0] - 1))
        long_ = st.integers(n + 1, n + 4).flatmap(lambda m: st.lists(st.integers(0, 255), min_size=m, max_size=m))
        return st.one_of(short, badel, long_)
    return st.nothing()


def run_shard(spec, ctx, acc):
    import pyubx2

    known = set(ctx["known"])
    tier = ctx["tier"]
    what = spec["what"]
    if what == "exh-int":
        t = spec["t"]
        lo, hi = codec.int_range(t)
        for raw in range(lo, hi + 1):
            case = {"kind": "codec", "t": t, "raw": raw}
            out = core.checked(check, case)
            out.classes = ["codec-exhaustive"]
            out.dig = None
            out.sample = None
            out.nontrivial = True
            if core.handle(acc, out, case, known):
                break
        # just outside the range must be refused
        for val in (hi + 1, lo - 1, hi + 256, lo - 256):
            case = {"kind": "refuse", "t": t, "val": val}
            core.handle(acc, core.checked(check, case), case, known)
        return
    if what == "protocol":
        for v in range(65536):
            case = {"kind": "protocol", "p": bytes([v >> 8, v & 0xFF])}
            out = core.checked(check, case)
            out.dig = None
            if core.handle(acc, out, case, known):
                break
        for tail in (b"\x00", b"GGA,1", b"\xff" * 9):  # longer raw messages: only the prefix counts
            for p in (b"\xb5\x62", b"$G", b"\xd3\x00", b"\xd3\x04", b"$\x00", b"\xb5\x63"):
                case = {"kind": "protocol", "p": p + tail}
                core.handle(acc, core.checked(check, case), case, known)
        return
    if what == "cksum-exh":
        for ln in (0, 1, 2):
            for v in range(256 ** ln):
                case = {"kind": "checksum", "x": v.to_bytes(ln, "big")}
                out = core.checked(check, case)
                out.dig = None
                if core.handle(acc, out, case, known):
                    return
        # every length up to 600 (thorough: 4200) with saturated and structured
        # contents: all ff / fe / 80 / 00 / 01, ff with one 00, an ascending ramp
        top = 601 if tier == "quick" else 4201
        for ln in range(3, top):
            conts = [b"\xff" * ln, b"\xfe" * ln, b"\x80" * ln, bytes(ln), b"\x01" * ln,
                     b"\xff" * (ln // 2) + b"\x00" + b"\xff" * (ln - ln // 2 - 1),
                     bytes((i * 7 + ln) & 0xFF for i in range(ln))]
            for x in conts:
                case = {"kind": "checksum", "x": x}
                out = core.checked(check, case)
                out.classes = list(out.classes) + ["checksum-saturated"]
                if core.handle(acc, out, case, known):
                    return
        # the helper takes any byte string: far beyond what a frame can carry
        import hashlib

        for ln in (65535, 65536, 65540, 131071, 131072, 131073, 200000, 262145) + ((1 << 20, 3000001) if tier != "quick" else ()):
            for x in (hashlib.shake_256(bytes([ln & 0xFF])).digest(ln), b"\xff" * ln):
                case = {"kind": "checksum", "x": x}
                out = check(case)
                out.classes = list(out.classes) + ["checksum-long-content"]
                out.replay_case = {"kind": "checksum-long", "len": ln, "fill": x[:1] == b"\xff"}
                if core.handle(acc, out, case, known):
                    return
        return
    if what == "itow":
        part, of = spec["part"], spec["of"]
        week = 604800000
        step = 499 if tier == "quick" else 11
        base_week = 1900 + (ctx["seed"] % 700)
        start = part + (ctx["seed"] % step)
        bad = False
        for tow in range(start, week, step * of):
            ms = base_week * week + tow
            v = chk_itow(ms)
            acc.evaluations += 1
            acc.nontrivial_extra += 1
            acc.classes["itow"] += 1
            for k, d in v:
                if k in known:
                    acc.known_hits[k] += 1
                elif not any(x["key"] == k for x in acc.violations):
                    acc.violations.append({"key": k, "case": {"kind": "itow", "ms": ms}, "detail": d})
                    bad = True
            if bad and len(acc.violations) >= 2:
                break
        acc.samples.append({"kind": "itow", "week": base_week, "tow_from": start, "stride_ms": step * of})
        return
    # Hypothesis-driven parts
    ts = types()
    n = 1 if tier == "quick" else 20
    part = spec["part"]
    sd = lambda *a: core.derive(ctx["seed"], PROP, part, *a)  # noqa: E731
    if part == 0:
        for t in ts:
            rawst = layout.raw_for(t) if t != "CH" else st.text(max_size=30).map(lambda x: x.encode("utf-8"))
            strat = rawst.map(lambda raw, t=t: {"kind": "codec", "t": t, "raw": raw})
            core.hyp_search(acc, strat, check, seed=sd("codec", t), max_examples=80 * n, known=known)
            case = {"kind": "nomval", "t": t}
            core.handle(acc, core.checked(check, case), case, known)
            if t != "CH" and t[0] == "C":
                # text for a fixed-width character attribute: widths counted in bytes, not characters
                w = codec.tsize(t)
                alpha = "aZ09 _\xe9\xfc\u20ac\u6e2c\U0001f600\x00"
                strat = st.one_of(st.integers(max(0, w - 3), w + 1).flatmap(
                    lambda m: st.text(alphabet=alpha, min_size=m, max_size=m)),
                    st.text(alphabet=alpha, max_size=w + 2), st.text(max_size=w + 2)).map(
                    lambda x, t=t: {"kind": "text", "t": t, "text": x})
                core.hyp_search(acc, strat, check, seed=sd("text", t), max_examples=60 * n, known=known)
    elif part == 1:
        for t in ts:
            if t == "CH" or t[0] == "R":
                continue
            strat = refuse_values(t).map(lambda v, t=t: {"kind": "refuse", "t": t, "val": v})
            core.hyp_search(acc, strat, check, seed=sd("refuse", t), max_examples=40 * n, known=known)
    elif part == 2:
        cks = st.one_of(st.binary(min_size=3, max_size=300),
                        st.tuples(st.integers(4000, 9000), st.integers(0, 255), st.integers(1, 255)).map(
                            lambda t: __import__("hashlib").shake_256(bytes(t[1:])).digest(t[0]))).map(
            lambda x: {"kind": "checksum", "x": x})
        core.hyp_search(acc, cks, check, seed=sd("ck"), max_examples=1500 * n, known=known)
        good = st.binary(min_size=4, max_size=80).map(lambda b: b"\xb5\x62" + b + codec.fletcher8(b))
        anyb = st.binary(min_size=4, max_size=80)
        flip = st.tuples(good, st.integers(0, 10 ** 6), st.integers(1, 255)).map(
            lambda t3: t3[0][: t3[1] % len(t3[0])] + bytes([t3[0][t3[1] % len(t3[0])] ^ t3[2]])
            + t3[0][t3[1] % len(t3[0]) + 1:])
        iv = st.one_of(good, anyb, flip).map(lambda x: {"kind": "isvalid", "x": x})
        core.hyp_search(acc, iv, check, seed=sd("iv"), max_examples=1500 * n, known=known)
        gb = st.integers(1, 8).flatmap(lambda ln: st.tuples(
            st.binary(min_size=ln, max_size=ln),
            st.one_of(st.integers(1, (1 << (8 * ln)) - 1),
                      st.tuples(st.integers(0, 8 * ln - 1), st.integers(1, 8)).map(
                          lambda sw: (((1 << sw[1]) - 1) << sw[0]) & ((1 << (8 * ln)) - 1)).filter(bool))))
        core.hyp_search(acc, gb.map(lambda bm: {"kind": "get_bits", "b": bm[0], "mask": bm[1]}), check,
                        seed=sd("gb"), max_examples=2000 * n, known=known)
    else:
        ms = st.one_of(st.integers(0, 4000 * 604800000),
                       st.integers(0, 4000).flatmap(lambda w: st.integers(-3, 3).map(
                           lambda d: max(0, w * 604800000 + d))),
                       st.integers(0, 4000).map(lambda w: w * 604800000 + 604800000 - 18000))
        core.hyp_search(acc, ms.map(lambda m: {"kind": "itow", "ms": m}), check, seed=sd("itow"),
                        max_examples=3000 * n, known=known)
        core.hyp_search(acc, st.integers(0, 604800000 + 18000).map(lambda m: {"kind": "itow-inv", "itow": m}),
                        check, seed=sd("itowinv"), max_examples=2000 * n, known=known)
        sp = st.tuples(st.one_of(st.floats(-1e4, 1e4), st.integers(-10 ** 6, 10 ** 6).map(lambda i: i / 1e7 * 97)),
                       st.sampled_from([1e-7, 1e-2, 1.0, 1e-3, 1e-5]))
        core.hyp_search(acc, sp.map(lambda vs: {"kind": "val2sphp", "val": vs[0], "scale": vs[1]}), check,
                        seed=sd("sphp"), max_examples=1500 * n, known=known)
        at = st.tuples(st.from_regex(re.compile(r"[a-zA-Z][a-zA-Z0-9]{0,10}"), fullmatch=True),
                       st.lists(st.one_of(st.integers(1, 12), st.integers(1, 300)), min_size=0, max_size=3))
        core.hyp_search(acc, at.map(lambda bi: {"kind": "att", "base": bi[0], "idx": bi[1]}), check,
                        seed=sd("att"), max_examples=800 * n, known=known)
