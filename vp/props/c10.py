"""C10 - reader output does not depend on how the transport chunks the bytes.

Domain   byte sequences (clean frame sequences and garbage) x recv() schedules:
         *all* compositions of the length for sequences up to 12 bytes, random
         schedules (biased to 1-byte chunks, to frame boundaries +-1 and to
         "everything at once") for longer ones x bufsize in {1,2,3,7,16,64,4096}
         x end condition {peer close, timeout, OSError}; plus real delivery
         through socket.socketpair() from a concurrent sender thread.
Oracle   differential: items(UBXReader(socket)) == items(UBXReader(BytesIO(S)))
         under the same options.  Wrapper contract, model-based over generated
         operation sequences against a byte-queue model: read(n) returns exactly
         the next n bytes or b"" (consuming nothing); readline() returns the
         bytes up to and including the next LF (or the remaining tail when the
         transport ends first); every byte is consumed exactly once, in order.
"""

import io
import itertools
import socket
import threading

from hypothesis import strategies as st

from vp import core
from vp.gen import streams
from vp.props import streamlib as S

PROP = "C10"
LEVEL = "exploration"
TECHNIQUE = ("property-based testing over harness-owned recv() schedules (scripted socket; all "
             "compositions for short sequences) with a file-stream differential oracle; model-based "
             "operation sequences for the SocketWrapper contract; real socketpair delivery")
RULE = ("case = (byte sequence, recv chunk schedule, bufsize, end condition, reader options) or "
        "(bytes, schedule, operation sequence) for the wrapper; non-trivial = some recv boundary "
        "falls strictly inside a frame (reader cases) / the sequence contains a read spanning two "
        "recv chunks (wrapper cases); distinct by digest")
ASSUMPTIONS = [
    "the scripted socket is a socket.socket subclass whose recv() follows the generated schedule",
    "real-socket runs: end=close uses blocking recv; end=timeout queues all data in the kernel "
    "before reading starts, so the clock cannot change the outcome",
    "only items are compared, not error-handler calls (a truncated tail is an error on a file "
    "and silent end-of-data on a socket)",
]

BUFSIZES = [1, 2, 3, 7, 16, 64, 4096]
ENDS = ["close", "timeout", "oserror", "reset", "aborted"]


def floors(tier):
    return {"reader": 2500, "wrapper": 1500, "real-socket": 40, "split-inside-frame": 1000,
            "end=close": 300, "end=timeout": 300, "end=oserror": 300, "end=reset": 300, "end=aborted": 300, "all-compositions": 1000,
            "bufsize=1": 100, "bufsize=4096": 100, "session>64KiB": 12, "quiet-period": 200,
            "reader-sole-owner-of-socket": 300, "quiet-period:non-blocking-socket": 50,
            "delivery-ends-at-frame-end": 100, "closed-by-application": 50, "duplex": 300, "sock=tls-like": 30, "sock=datagram": 30, "writes-fail": 50, "blocking": 100}


def plan(tier, seed):
    return [{"what": "reader", "part": i} for i in range(8)] + [{"what": "long", "part": i} for i in range(4)] + [
        {"what": "compositions", "part": i} for i in range(4)] + [
        {"what": "wrapper", "part": i} for i in range(3)] + [{"what": "real"}, {"what": "pauses", "part": 0},
                                                             {"what": "pauses", "part": 1}, {"what": "duplex", "part": 0},
                                                            {"what": "duplex", "part": 1}]


def frame_spans(items):
    out, off = [], 0
    for it in items or []:
        n = len(it["b"])
        if it["p"] in ("ubx", "nmea", "rtcm"):
            out.append((off, off + n))
        off += n
    return out


def check_one(case) -> core.Out:
    import logging
    import pyubx2

    k = case["kind"]
    core.log_off()
    try:
        if k == "reader":
            data = bytes(case["data"])
            opts = dict(case["opts"])
            chunks, bufsize, end = list(case["chunks"]), case["bufsize"], case["end"]
            out = core.Out(classes=["reader", f"end={end}", f"bufsize={bufsize}"] + (["session>64KiB"] if case.get("long") else []),
                           dig=core.digest((data, chunks, bufsize, end, sorted(opts.items()))))
            try:
                want, exc = S.read_all(io.BytesIO(data), opts, handler=(lambda e: None) if opts["quitonerror"] == 1 else None,
                                       limit=4 * len(data) + 50)
            except S.HarnessHang:
                out.classes = ["skipped:hang(C08)"]
                return out
            if exc is not None:
                out.classes = ["skipped:file-run-raises(C08)"]
                return out
            sole = (len(data) + bufsize) % 3 == 0
            sizes = []
            if sole:
                # the reader is handed the only reference to the socket (as in
                # UBXReader(socket.create_connection(...))): it must keep it alive
                import gc

                out.classes.append("reader-sole-owner-of-socket")

                import weakref

                refs = []

                def connect():
                    s_ = S.ScriptedSocket(data, chunks, end)
                    s_.recv_sizes = sizes  # shared list: survives the socket object
                    refs.append(weakref.ref(s_))  # (does not keep it alive; used to close it at the end)
                    return s_

                try:
                    o2 = dict(opts, bufsize=bufsize)
                    h2 = S.handler_returning(len(data)) if opts["quitonerror"] == 1 else None
                    with S.deadline():
                        rd = S.mk_reader(connect(), o2, h2)
                        gc.collect()
                        got, exc = [], None
                        try:
                            for _i in range(4 * len(data) + 50):
                                raw, parsed = rd.read()
                                if raw is None and parsed is None:
                                    break
                                got.append((raw, parsed))
                        except Exception as err:  # noqa
                            exc = err
                        s_ = refs[0]()
                        if s_ is not None:
                            s_.close()
                        del rd, s_
                        gc.collect()
                except S.HarnessHang as err:
                    out.viol.append((f"{PROP}|hang", f"socket run did not terminate: {err}"))
                    return out
            else:
                sock = S.ScriptedSocket(data, chunks, end)
                try:
                    o2 = dict(opts, bufsize=bufsize)
                    try:
                        got, exc = S.read_all(sock, o2, handler=S.handler_returning(len(data)) if opts["quitonerror"] == 1 else None,
                                              limit=4 * len(data) + 50)
                    except S.HarnessHang as err:
                        out.viol.append((f"{PROP}|hang", f"socket run did not terminate: {err}"))
                        return out
                    sizes = list(sock.recv_sizes)
                finally:
                    sock.close()
            # where do the recv boundaries fall?
            cuts = set(itertools.accumulate(sizes))
            spans = frame_spans(case.get("items"))
            inside = any(a < c < b for c in cuts for a, b in spans) if spans else (len(sizes) > 1)
            if inside:
                out.classes.append("split-inside-frame")
            out.nontrivial = inside
            out.sample = {"data": data[:40], "len": len(data), "recv_sizes": sizes[:12], "bufsize": bufsize,
                          "end": end, "opts": opts}
            key = f"{PROP}|reader|end={end}|"
            if exc is not None:
                out.viol.append((key + f"raises:{type(exc).__name__}",
                                 f"socket run raised {exc!r}; data {data[:40].hex()} recv sizes {sizes[:10]} "
                                 f"bufsize {bufsize}"))
            elif not S.same_items(got, want):
                out.viol.append((key + "items-differ",
                                 f"{len(got)} items via socket vs {len(want)} via file; data {data[:50].hex()} "
                                 f"recv sizes {sizes[:12]} bufsize {bufsize} {S.opts_label(opts)}"))
            return out
        if k == "pauses":
            data, opts = bytes(case["data"]), dict(case["opts"])
            out = core.Out(classes=["quiet-period"], dig=core.digest((data, case["pauses"], case["bufsize"], case["chunks"])))
            want, exc = S.read_all(io.BytesIO(data), opts, limit=4 * len(data) + 50)
            if exc is not None:
                out.classes = ["skipped:file-run-raises(C08)"]
                return out
            nonblocking = (len(data) + len(case["pauses"])) % 2 == 1
            if nonblocking:
                out.classes.append("quiet-period:non-blocking-socket")
            sock = S.ScriptedSocket(data, case["chunks"], "close", pauses=case["pauses"],
                                    pause_exc=BlockingIOError if nonblocking else TimeoutError)
            sock.settimeout(0.0 if nonblocking else 0.5)  # (quiet periods only show on sockets that do not block for ever)
            try:
                rd = S.mk_reader(sock, dict(opts, bufsize=case["bufsize"]))
                got, idle = [], 0
                for _ in range(4 * len(data) + 50):
                    raw, parsed = rd.read()
                    if raw is None and parsed is None:
                        idle += 1
                        if idle > len(case["pauses"]) + 1:
                            break
                        continue  # the application tries again after a timeout
                    got.append((raw, parsed))
            except Exception as err:  # noqa
                out.viol.append((f"{PROP}|quiet-period|raises:{type(err).__name__}", repr(err)[:200]))
                return out
            finally:
                sock.close()
            out.nontrivial = True
            out.sample = {"data": data[:32], "quiet_periods_at": case["pauses"], "bufsize": case["bufsize"]}
            if not S.same_items(got, want):
                out.viol.append((f"{PROP}|quiet-period|items-differ",
                                 f"{len(got)} items via a socket with receive timeouts at frame boundaries "
                                 f"{case['pauses']}, {len(want)} via file; data {data[:40].hex()}"))
            return out
        if k == "wrapper":
            data = bytes(case["data"])
            chunks, bufsize, end, ops = list(case["chunks"]), case["bufsize"], case["end"], case["ops"]
            out = core.Out(classes=["wrapper", f"end={end}"], dig=core.digest((data, chunks, bufsize, end, ops)))
            sock = S.ScriptedSocket(data, chunks, end)
            try:
                w = pyubx2.SocketWrapper(sock, bufsize=bufsize)
                pos = 0  # model: bytes consumed so far
                spanning = False
                for op in ops:
                    if op[0] == "read":
                        n = op[1]
                        try:
                            got = w.read(n)
                        except S.HarnessHang as err:
                            out.viol.append((f"{PROP}|wrapper|hang", str(err)))
                            break
                        if len(data) - pos >= n:
                            want = data[pos:pos + n]
                            pos += n
                        else:
                            want = b""
                        if n > 1:
                            spanning = True
                        if got != want:
                            out.viol.append((f"{PROP}|wrapper|read",
                                             f"read({n}) at offset {pos} returned {bytes(got)[:20].hex()} "
                                             f"(len {len(got)}), model {want[:20].hex()} (len {len(want)}); "
                                             f"data {data[:40].hex()} chunks {chunks[:8]} bufsize {bufsize} end {end}"))
                            break
                    else:
                        try:
                            got = w.readline()
                        except S.HarnessHang as err:
                            out.viol.append((f"{PROP}|wrapper|hang", str(err)))
                            break
                        j = data.find(b"\n", pos)
                        want = data[pos:j + 1] if j >= 0 else data[pos:]
                        pos += len(want)
                        spanning = spanning or len(want) > 1
                        if got != want:
                            out.viol.append((f"{PROP}|wrapper|readline",
                                             f"readline() returned {bytes(got)[:24].hex()}, model {want[:24].hex()}; "
                                             f"data {data[:40].hex()} chunks {chunks[:8]} bufsize {bufsize} end {end}"))
                            break
                out.nontrivial = spanning and len(sock.recv_sizes) > 1
                out.sample = {"data": data[:32], "chunks": chunks[:8], "bufsize": bufsize, "end": end, "ops": ops[:8]}
            finally:
                sock.close()
            return out
        if k == "duplex":
            # the application also writes to the socket (polls, configuration) between reads
            # - successfully or not -, the socket may be a blocking one, a message-oriented
            # one, or a subclass with read() / write() of its own (like ssl.SSLSocket)
            data, opts = bytes(case["data"]), dict(case["opts"])
            sockkind, blocking, wfail = case["sock"], case["blocking"], case["write_fails"]
            out = core.Out(classes=["duplex", f"sock={sockkind}", "writes-fail" if wfail else "writes-succeed",
                                    "blocking" if blocking else "timeout-socket"],
                           dig=core.digest((data, case["chunks"], case["bufsize"], sockkind, blocking, wfail, case["every"])))
            want, exc = S.read_all(io.BytesIO(data), opts, limit=4 * len(data) + 50)
            if exc is not None:
                out.classes = ["skipped:file-run-raises(C08)"]
                return out
            cls = S.TLSLikeSocket if sockkind == "tls-like" else S.ScriptedSocket
            chunks = list(case["chunks"])
            if sockkind == "datagram":
                chunks = [min(c, case["bufsize"]) for c in chunks] + [case["bufsize"]] * (len(data) // case["bufsize"] + 2)
            sock = cls(data, chunks, "close", pauses=case["pauses"], datagram=sockkind == "datagram",
                       write_fails={0: None, 1: BrokenPipeError, 2: ConnectionResetError}[wfail])
            sock.settimeout(None if blocking else 0.25)
            try:
                with S.deadline():
                    rd = S.mk_reader(sock, dict(opts, bufsize=case["bufsize"]))
                    got, idle, closed_at = [], 0, []
                    for _ in range(4 * len(data) + 50):
                        raw, parsed = rd.read()
                        if raw is None and parsed is None:
                            idle += 1
                            if blocking or closed_at or idle > len(case["pauses"]) + 1:
                                break  # (a blocking socket only reports the end once)
                            continue
                        got.append((raw, parsed))
                        if case.get("peek"):
                            len(rd.datastream.buffer)  # the application looks at what is buffered
                        if case.get("close_after") and len(got) == case["close_after"] and not closed_at:
                            closed_at = [sock._pos]
                            sock.close()  # the application closes its own socket and drains the reader
                        if case["every"] and len(got) % case["every"] == 0:
                            try:
                                rd.datastream.write(b"\xb5\x62\x0a\x04\x00\x00\x0e\x34")
                            except OSError:
                                pass  # the application notes that its poll could not be sent
            except Exception as err:  # noqa
                out.viol.append((f"{PROP}|duplex|raises:{type(err).__name__}", repr(err)[:200]))
                return out
            finally:
                tmo = sock.gettimeout()
                sock.close()
            out.nontrivial = True
            out.sample = {"data": data[:32], "socket": sockkind, "blocking": blocking, "writes fail": bool(wfail),
                          "written": len(sock.sent), "pauses": case["pauses"][:4]}
            if closed_at:
                # what had been received when the application closed its socket is still delivered
                out.classes.append("closed-by-application")
                want, _e = S.read_all(io.BytesIO(data[:closed_at[0]]), opts, limit=4 * len(data) + 50)
            if not S.same_items(got, want):
                out.viol.append((f"{PROP}|duplex|{sockkind}|items-differ",
                                 f"{len(got)} items via a {sockkind} socket ({'blocking' if blocking else 'with timeout'}, "
                                 f"{len(sock.sent)} writes{' that failed' if wfail else ''}) vs {len(want)} via file; "
                                 f"data {data[:40].hex()}"))
            elif tmo != (None if blocking else 0.25) and not closed_at:
                out.viol.append((f"{PROP}|duplex|timeout-changed", f"the socket's timeout is {tmo!r} after the session"))
            return out
        if k == "real":
            data = bytes(case["data"])
            opts = dict(case["opts"])
            chunks, end = list(case["chunks"]), case["end"]
            out = core.Out(classes=["real-socket", f"end={end}"], dig=core.digest((data, chunks, end)))
            want, exc = S.read_all(io.BytesIO(data), opts, limit=4 * len(data) + 50)
            if exc is not None:
                out.classes = ["skipped:file-run-raises(C08)"]
                return out
            if end == "timeout":
                chunks = chunks[:48]  # everything must fit in the kernel queue before reading starts
            a, b = socket.socketpair()
            try:
                def sender():
                    p = 0
                    for c in chunks + [len(data)]:
                        if p >= len(data):
                            break
                        a.sendall(data[p:p + c])
                        p += c
                    if end == "close":
                        a.close()

                th = threading.Thread(target=sender, daemon=True)
                if end == "timeout":
                    th.start()
                    th.join(20)  # everything is queued in the kernel before reading starts
                    if th.is_alive():
                        raise core.HarnessError("sender thread could not queue the data")
                    b.settimeout(0.05)
                else:
                    b.settimeout(None)
                    th.start()
                got, exc = S.read_all(b, dict(opts, bufsize=case["bufsize"]), limit=4 * len(data) + 50)
                th.join(5)
            finally:
                a.close()
                b.close()
            out.nontrivial = len(chunks) > 0
            out.sample = {"data": data[:32], "chunks": chunks[:8], "end": end}
            if exc is not None:
                out.viol.append((f"{PROP}|real|raises:{type(exc).__name__}", repr(exc)[:200]))
            elif not S.same_items(got, want):
                out.viol.append((f"{PROP}|real|items-differ",
                                 f"{len(got)} items via socketpair vs {len(want)} via file; data {data[:50].hex()}"))
            return out
        raise ValueError(k)
    finally:
        core.log_on()


OPTS = st.fixed_dictionaries({
    "msgmode": st.sampled_from([0, 0, 3]),
    "validate": st.sampled_from([1, 1, 0]),
    "parsebitfield": st.just(1),
    "quitonerror": st.sampled_from([0, 1]),
    "protfilter": st.sampled_from([7, 7, 2, 3]),
})


@st.composite
def schedules(draw, items, n):
    """Chunk sizes for n bytes: biased to 1-byte chunks, frame boundaries +-1,
    everything at once."""
    mode = draw(st.sampled_from(["ones", "random", "boundaries", "all", "two"]))
    if n == 0 or mode == "all":
        return []
    if mode == "ones":
        return [1] * n
    if mode == "two":
        c = draw(st.integers(1, max(1, n - 1)))
        return [c]
    if mode == "boundaries":
        cuts = set()
        off = 0
        for it in items:
            off += len(it["b"])
            cuts.add(off + draw(st.sampled_from([-1, 0, 1, -2, 2, 0, 6])))  # (+6: just after the next UBX header)
        cuts = sorted(c for c in cuts if 0 < c < n)
        out, prev = [], 0
        for c in cuts:
            out.append(c - prev)
            prev = c
        return out
    out = []
    left = n
    while left > 0 and len(out) < 60:
        c = draw(st.one_of(st.integers(1, 3), st.integers(1, max(1, left))))
        out.append(c)
        left -= c
    return out


def run_shard(spec, ctx, acc):
    known = set(ctx["known"])
    quick = ctx["tier"] == "quick"
    what = spec["what"]
    if what == "reader":
        @st.composite
        def cases(draw):
            items = draw(st.one_of(streams.clean_streams(1, 4), streams.garbage_streams(6)))
            data = streams.stream_bytes(items)
            return {"kind": "reader", "data": data, "items": items, "opts": draw(OPTS),
                    "chunks": draw(schedules(items, len(data))), "bufsize": draw(st.sampled_from(BUFSIZES)),
                    "end": draw(st.sampled_from(ENDS))}

        core.hyp_search(acc, cases(), check, seed=core.derive(ctx["seed"], PROP, "r", spec["part"]),
                        max_examples=400 if quick else 8000, known=known, rounds=3)
        return
    if what == "long":
        # long sessions: more than 64 KiB pass through one reader before the part
        # of the stream whose chunking is varied
        @st.composite
        def longcases(draw):
            corp = streams.corpus()
            body, k = [], draw(st.integers(0, 50))
            target = draw(st.sampled_from([66000, 70000, 131500]))
            mix = draw(st.sampled_from(["ubx", "mixed", "mixed", "nmea"]))
            size = 0
            while size < target:
                # pure UBX, pure NMEA or alternating: what the reader is in the middle
                # of when the 64 KiB mark passes depends on it
                src = "ubx" if mix == "ubx" or (mix == "mixed" and k % 2) else "nmea"
                body.append(corp[src][k % len(corp[src])])
                size += len(body[-1])
                k += 1
            items = [streams.item("ubx", b"".join(body), "bulk")]
            tail = draw(st.lists(st.one_of(streams.nmea_items(), streams.nmea_items(), streams.ubx_items()),
                                 min_size=6, max_size=14))
            if draw(st.booleans()):
                import hashlib

                n = draw(st.sampled_from([65535, 65534, 65533, 32768]))
                tail.insert(draw(st.integers(0, 3)), streams.item(
                    "ubx", S.codec.ubx_frame(b"\x04", b"\x02", hashlib.shake_256(bytes([n & 0xFF])).digest(n)), "len>=256"))
            items += tail
            data = streams.stream_bytes(items)
            step = draw(st.sampled_from([1000, 997, 1460, 4096, 512]))
            first = draw(st.integers(1, step))
            chunks = [first] + [step] * (len(data) // step + 2)
            return {"kind": "reader", "data": data, "items": [streams.item("noise", items[0]["b"], "bulk")] + tail,
                    "opts": {"msgmode": 0, "validate": 1, "parsebitfield": 1, "quitonerror": 0, "protfilter": 7},
                    "chunks": chunks, "bufsize": draw(st.sampled_from([4096, 1024, 65536])),
                    "end": draw(st.sampled_from(ENDS)), "long": True}

        core.hyp_search(acc, longcases(), check, seed=core.derive(ctx["seed"], PROP, "long", spec["part"]),
                        max_examples=5 if quick else 60, known=known, rounds=1, shrink=False)
        # block-sized frames whose last delivery ends exactly at the end of the frame
        import hashlib

        ack0 = S.codec.ubx_frame(b"\x05", b"\x01", b"\x06\x01")
        txt0 = S.codec.nmea_frame("GNGLL,5327.04319,N,00214.41396,W,223232.00,A,A")
        for n in ([4088, 4094, 8190] if spec["part"] % 2 == 0 else [4096, 5000, 12286]):
            big = S.codec.ubx_frame(b"\x04", b"\x02", hashlib.shake_256(bytes([n & 0xFF, 7])).digest(n))
            data = ack0 + big + ack0 + txt0 + ack0
            end_big = len(ack0) + len(big)
            for step in (1000, 4096, 1460, 512):
                chunks = [len(ack0)]
                left = len(big)
                while left > 0:
                    chunks.append(min(step, left))
                    left -= chunks[-1]
                assert sum(chunks) == end_big
                chunks += [len(ack0), 7, 4096]
                for bufsize in (4096, 65536, 1024):
                    case = {"kind": "reader", "data": data, "items": None, "long": False,
                            "opts": {"msgmode": 0, "validate": 1, "parsebitfield": 1, "quitonerror": 0, "protfilter": 7},
                            "chunks": chunks, "bufsize": bufsize, "end": ("close", "timeout")[(n + step) % 2]}
                    o = core.checked(check, case)
                    o.classes = list(o.classes) + ["delivery-ends-at-frame-end"]
                    core.handle(acc, o, case, known)

        ack = S.codec.ubx_frame(b"\x05", b"\x01", b"\x06\x01")
        for n in ([65535, 65534] if spec["part"] % 2 == 0 else [65533, 65535]):
            big = S.codec.ubx_frame(b"\x04", b"\x02", hashlib.shake_256(bytes([n & 0xFF, spec["part"]])).digest(n))
            data = ack + big + ack + ack
            for step, bufsize, end in ((1460, 4096, "close"), (65536, 65536, "timeout"), (4096, 1024, "oserror")):
                case = {"kind": "reader", "data": data, "items": None, "long": True,
                        "opts": {"msgmode": 0, "validate": 1, "parsebitfield": 1, "quitonerror": 0, "protfilter": 7},
                        "chunks": [step] * (len(data) // step + 2), "bufsize": bufsize, "end": end}
                core.handle(acc, core.checked(check, case), case, known)
        return
    if what == "duplex":
        @st.composite
        def dx(draw):
            items = draw(streams.clean_streams(2, 6))
            data = streams.stream_bytes(items)
            n = len(data)
            bufsize = draw(st.sampled_from([16, 64, 4096]))
            ends, off = [], 0
            for it in items:
                off += len(it["b"])
                ends.append(off)
            return {"kind": "duplex", "data": data, "opts": draw(OPTS),
                    "chunks": draw(st.lists(st.integers(1, max(1, min(n, 300))), max_size=12)), "bufsize": bufsize,
                    "pauses": sorted(set(draw(st.lists(st.sampled_from(ends[:-1] or [0]), max_size=3)))),
                    "sock": draw(st.sampled_from(["plain", "plain", "tls-like", "datagram"])),
                    "blocking": draw(st.booleans()), "write_fails": draw(st.sampled_from([0, 0, 1, 2])),
                    "every": draw(st.sampled_from([0, 1, 2, 3])), "peek": draw(st.booleans()),
                    "close_after": draw(st.sampled_from([0, 0, 0, 1, 2]))}

        core.hyp_search(acc, dx(), check, seed=core.derive(ctx["seed"], PROP, "dx", spec["part"]),
                        max_examples=200 if quick else 4000, known=known, rounds=3)
        return
    if what == "pauses":
        # quiet periods: the receive times out once at a frame boundary, the consumer
        # calls read() again and data keeps coming (the README leaves timeout
        # handling to the application: the wrapper must stay usable)
        @st.composite
        def pc(draw):
            items = draw(streams.clean_streams(2, 6, noise=False, bursts=False))
            data = streams.stream_bytes(items)
            offs, o = [], 0
            for it in items:
                o += len(it["b"])
                offs.append(o)
            pauses = sorted(set(draw(st.lists(st.sampled_from(offs[:-1] or [0]), min_size=1, max_size=3))))
            return {"kind": "pauses", "data": data, "pauses": pauses, "bufsize": draw(st.sampled_from(BUFSIZES)),
                    "chunks": draw(schedules(items, len(data))),
                    "opts": {"msgmode": 0, "validate": 1, "parsebitfield": 1, "quitonerror": 0, "protfilter": 7}}

        core.hyp_search(acc, pc(), check, seed=core.derive(ctx["seed"], PROP, "p", spec["part"]),
                        max_examples=150 if quick else 3000, known=known, rounds=2)
        return
    if what == "compositions":
        # every composition (ordered split) of short sequences
        @st.composite
        def short(draw):
            frag = draw(st.sampled_from([
                b"\xb5\x62\x05\x01\x02\x00\x06\x01\x0f\x38", b"\xb5\x62\x0a\x04\x00\x00\x0e\x34",
                b"$GNXX*0A\r\n\xb5\x62", b"\xd3\x00\x00\x47\xea\x4b\xb5", b"$PX*08\r\n", b"\x00\xb5\x62\x06\x01\x00\x00\x07",
                b"\xb5\x62\x06\x01\x00\x00\x07\x1b\x24\x47"]))
            tail = draw(st.binary(max_size=2))
            return (frag + tail)[:12]

        seqs = st.tuples(short(), OPTS, st.sampled_from(BUFSIZES), st.sampled_from(ENDS))

        def expand(t):
            data, opts, bufsize, end = t
            n = len(data)
            cases_ = []
            # compositions of n <-> subsets of the n-1 interior cut points
            total = 1 << max(0, n - 1)
            step = max(1, total // (64 if quick else 2048))
            for mask in range(0, total, step):
                chunks, prev = [], 0
                for i in range(1, n):
                    if mask >> (i - 1) & 1:
                        chunks.append(i - prev)
                        prev = i
                cases_.append({"kind": "reader", "data": data, "opts": opts, "chunks": chunks,
                               "bufsize": bufsize, "end": end})
            return cases_

        core.hyp_search(acc, seqs.map(expand), check, seed=core.derive(ctx["seed"], PROP, "c", spec["part"]),
                        max_examples=12 if quick else 60, known=known, rounds=2, shrink=False)
        return
    if what == "wrapper":
        @st.composite
        def wcases(draw):
            data = draw(st.one_of(st.binary(max_size=40),
                                  st.lists(st.sampled_from([b"ab", b"\n", b"$GN,1\r\n", b"\xb5\x62", b"x"]),
                                           max_size=10).map(b"".join)))
            n = len(data)
            chunks = draw(st.lists(st.integers(1, max(1, n)), max_size=20))
            ops = draw(st.lists(st.one_of(st.tuples(st.just("read"), st.integers(0, 9)),
                                          st.tuples(st.just("read"), st.integers(0, n + 3)),
                                          st.tuples(st.just("readline"))), min_size=1, max_size=14))
            return {"kind": "wrapper", "data": data, "chunks": chunks, "bufsize": draw(st.sampled_from(BUFSIZES)),
                    "end": draw(st.sampled_from(ENDS)), "ops": [list(o) for o in ops]}

        core.hyp_search(acc, wcases(), check, seed=core.derive(ctx["seed"], PROP, "w", spec["part"]),
                        max_examples=700 if quick else 15000, known=known, rounds=3)
        return
    # real sockets
    @st.composite
    def rcases(draw):
        items = draw(st.one_of(streams.clean_streams(1, 4), streams.garbage_streams(5)))
        data = streams.stream_bytes(items)
        return {"kind": "real", "data": data, "opts": {"msgmode": 0, "validate": 1, "parsebitfield": 1,
                                                       "quitonerror": 0, "protfilter": 7},
                "chunks": draw(schedules(items, len(data))), "bufsize": draw(st.sampled_from(BUFSIZES)),
                "end": draw(st.sampled_from(["close", "close", "timeout"]))}

    core.hyp_search(acc, rcases(), check, seed=core.derive(ctx["seed"], PROP, "real"),
                    max_examples=60 if quick else 600, known=known, rounds=2, shrink=False)


def check(case):
    if isinstance(case, list):
        o = core.Out(classes=[], n=0, nt=0)
        seen = set()
        for c in case:
            r = check_one(c)
            o.n += 1
            if r.nontrivial:
                o.nt += 1
            for kk, d in r.viol:
                if kk not in seen:
                    seen.add(kk)
                    o.viol.append((kk, d))
            o.sample = o.sample or r.sample
        o.counts = {"all-compositions": o.n, "reader": o.n, "split-inside-frame": o.nt,
                    f"end={case[0]['end']}": o.n, f"bufsize={case[0]['bufsize']}": o.n}
        o.dig = core.digest((case[0]["data"], case[0]["bufsize"], case[0]["end"]))
        o.nontrivial = True
        return o
    return check_one(case)
