"""Shared pieces for the stream-reader properties (C06-C12)."""

import contextlib
import io
import socket

from vp.ref import codec


class HarnessHang(Exception):
    """The reader made more stream calls than any terminating reader can."""


class TrackingStream:
    """File-like stream over a byte string that records what was handed out and
    detects logical non-termination: every turn of a correct reader loop
    consumes at least one byte, so the number of read calls is bounded.

    With `bursts` (a list of sizes) the stream behaves like a serial port with a
    timeout: a read never crosses the end of the current burst, so reads may
    return fewer bytes than requested (but never none while data remains)."""

    def __init__(self, data: bytes, bursts=None, seekable=False):
        self.data = data
        self.pos = 0
        self._seekable = seekable
        self.seeks = 0
        self.calls = 0
        self.budget = 6 * len(data) + 16
        self.zero_reads = 0
        self.short_reads = 0
        self._ends = None
        if bursts:
            ends, e = [], 0
            for b in bursts:
                e += max(1, b)
                if e >= len(data):
                    break
                ends.append(e)
            self._ends = ends + [len(data)]

    def _tick(self):
        self.calls += 1
        if self.calls > self.budget:
            raise HarnessHang(f"{self.calls} stream calls for {len(self.data)} bytes")

    def _limit(self):
        if self._ends is None:
            return len(self.data)
        for e in self._ends:
            if e > self.pos:
                return e
        return len(self.data)

    def read(self, n=-1):
        self._tick()
        if n == 0:
            self.zero_reads += 1
            return b""
        lim = self._limit()
        end = lim if n is None or n < 0 else min(lim, self.pos + n)
        out = self.data[self.pos:end]
        if n is not None and 0 < len(out) < n:
            self.short_reads += 1
        self.pos = end
        return out

    @property
    def in_waiting(self):
        """pyserial's name for 'bytes that have arrived and can be read without waiting':
        with bursts, the next burst (it arrived just after a read timed out)."""
        if self._ends is None:
            return len(self.data) - self.pos
        return self._limit() - self.pos

    def readline(self):
        self._tick()
        lim = self._limit()
        j = self.data.find(b"\n", self.pos, lim)
        end = lim if j < 0 else j + 1
        out = self.data[self.pos:end]
        self.pos = end
        return out

    def tell(self):
        return self.pos

    def seekable(self):
        return self._seekable

    def seek(self, offset, whence=0):
        if not self._seekable:
            raise OSError("not seekable")
        self.seeks += 1
        base = {0: 0, 1: self.pos, 2: len(self.data)}[whence]
        self.pos = max(0, min(len(self.data), base + offset))
        return self.pos

    def append(self, more: bytes):
        """The source gains data after having been read to its end."""
        self.data = self.data + more
        self.budget += 6 * len(more) + 16
        if self._ends is not None:
            self._ends.append(len(self.data))

    def rest(self):
        return self.data[self.pos:]


class PipeLike(io.RawIOBase):
    """Non-seekable raw stream (like a pipe, stdin or a serial port object derived
    from io.IOBase): it *has* tell()/seek() attributes, but they raise."""

    def __init__(self, data: bytes, burst=None):
        super().__init__()
        self._data = data
        self._p = 0
        self._burst = burst

    def readable(self):
        return True

    def seekable(self):
        return False

    def readinto(self, b):
        n = len(b) if not self._burst else min(len(b), self._burst)
        chunk = self._data[self._p:self._p + n]
        b[:len(chunk)] = chunk
        self._p += len(chunk)
        return len(chunk)


def pipe_stream(data: bytes, burst=None):
    return io.BufferedReader(PipeLike(data, burst), buffer_size=64)


SOURCES = ["bytesio", "bytesio", "buffered:16", "buffered:64", "buffered:8192", "file", "pipe:7", "tracking"]


def make_source(data: bytes, kind="bytesio"):
    """The same bytes behind different file-like objects: BytesIO; a buffered
    reader (has peek(), read1(), readinto()) with a small or default buffer; a
    real temporary file; a non-seekable pipe-like raw stream with short reads;
    a minimal read/readline object."""
    if kind == "bytesio":
        return io.BytesIO(data)
    if kind.startswith("buffered:"):
        return io.BufferedReader(io.BytesIO(data), buffer_size=int(kind.split(":")[1]))
    if kind == "file":
        import tempfile

        f = tempfile.TemporaryFile()
        f.write(data)
        f.flush()
        f.seek(0)
        _OPEN.append(f)
        return f
    if kind.startswith("pipe:"):
        return pipe_stream(data, int(kind.split(":")[1]))
    if kind == "tracking":
        return TrackingStream(data)
    if kind.startswith("socket:"):
        # the same bytes over a scripted socket (37-byte deliveries): a plain stream socket, a
        # message-oriented one, or a subclass with read() / write() of its own
        sk = kind.split(":")[1]
        cls = TLSLikeSocket if sk == "tls-like" else ScriptedSocket
        so = cls(data, [37] * (len(data) // 37 + 2), "close", datagram=sk == "datagram")
        _OPEN.append(so)
        return so
    if kind == "rawpipe":
        return PipeLike(data, None)  # unbuffered raw stream (reads are served in full, as a blocking pipe does)
    if kind == "fileio":
        import tempfile

        f = tempfile.TemporaryFile(buffering=0)  # io.FileIO: unbuffered real file
        f.write(data)
        f.seek(0)
        _OPEN.append(f)
        return f
    raise ValueError(kind)


_OPEN = []


def close_sources():
    """Close the real files handed out by make_source (called before the next case)."""
    while _OPEN:
        try:
            _OPEN.pop().close()
        except Exception:  # noqa
            pass


class ScriptedSocket(socket.socket):
    """A real socket object (passes isinstance checks) whose recv() is scripted:
    hands out `data` following `chunks` (sizes), never more than bufsize, then
    ends with `end`: 'close' (b''), 'timeout' (TimeoutError) or 'oserror'."""

    def __init__(self, data: bytes, chunks, end="close", pauses=(), pause_exc=TimeoutError, datagram=False,
                 write_fails=None):
        super().__init__(socket.AF_INET, socket.SOCK_STREAM)
        self._data = data
        self._pos = 0
        self._pauses = set(pauses)  # byte offsets before which one TimeoutError is raised
        self._pause_exc = pause_exc  # (BlockingIOError: what a non-blocking socket raises when nothing is queued)
        self._chunks = list(chunks)
        self._ci = 0
        self._end = end
        self.recv_calls = 0
        self.recv_sizes = []
        self._datagram = datagram      # message-oriented: what does not fit in the request is discarded
        self._write_fails = write_fails  # None: send() succeeds; an exception class: send() raises it
        self.sent = []
        self.truncated = 0

    def close(self):
        self.closed_locally = True
        super().close()

    def recv(self, bufsize, *flags):  # noqa
        if getattr(self, "closed_locally", False):
            raise OSError(9, "Bad file descriptor")
        self.recv_calls += 1
        if self.recv_calls > 4 * len(self._data) + 64:
            raise HarnessHang("recv called without progress")
        if self._pos >= len(self._data):
            if self._end == "close":
                return b""
            if self._end == "timeout":
                raise TimeoutError("scripted timeout")
            if self._end == "reset":
                raise ConnectionResetError(104, "scripted: connection reset by peer")
            if self._end == "aborted":
                raise ConnectionAbortedError(103, "scripted: connection aborted")
            raise OSError("scripted error")
        if bufsize <= 0:
            return b""  # like a real socket: a zero-size request returns nothing
        if self._pos in self._pauses:
            self._pauses.discard(self._pos)
            if self.gettimeout() is not None:
                raise self._pause_exc("scripted quiet period")
            # (a blocking socket simply waits until the data arrives)
        want = self._chunks[self._ci] if self._ci < len(self._chunks) else len(self._data)
        self._ci += 1
        if self._datagram:
            dg = max(1, min(want, len(self._data) - self._pos))
            out = self._data[self._pos:self._pos + min(dg, bufsize)]
            self.truncated += max(0, dg - bufsize)
            self._pos += dg
            self.recv_sizes.append(len(out))
            return out
        n = max(1, min(bufsize, want, len(self._data) - self._pos))
        nxt = [p for p in self._pauses if self._pos < p < self._pos + n]
        if nxt:
            n = min(nxt) - self._pos  # a quiet period ends the current delivery
        out = self._data[self._pos:self._pos + n]
        self._pos += n
        self.recv_sizes.append(n)
        return out


def handler_returning(k, sink=None):
    """An ERR_LOG handler; what it returns is its own business: nothing, True, False,
    the error itself or a count, chosen by k."""
    def handler(err):
        if sink is not None:
            sink.append(err)
        return (None, True, False, err, 17)[k % 5]

    return handler


def _scripted_send(self, data, *flags):
    self.sent.append(bytes(data))
    if self._write_fails is not None:
        raise self._write_fails(32, "scripted: the peer no longer reads")
    return len(data)


ScriptedSocket.send = _scripted_send
ScriptedSocket.sendall = lambda self, data, *flags: _scripted_send(self, data) and None


class TLSLikeSocket(ScriptedSocket):
    """A socket subclass that also has read() / write() methods of its own, like
    ssl.SSLSocket: read(n) returns at most n bytes of what has arrived."""

    def read(self, n=1024, buffer=None):
        return self.recv(n)

    def write(self, data):
        return self.send(data)


class ReentrantHandler:
    """An ERR_LOG handler that itself reads the next item from the same reader (an
    application skipping what follows a bad frame).  Depth-limited."""

    def __init__(self):
        self.rd = None
        self.depth = 0
        self.taken = []

    def bind(self, rd):
        self.rd = rd

    def __call__(self, err):
        if self.rd is None or self.depth >= 3:
            return None
        self.depth += 1
        try:
            self.taken.append(self.rd.read())
        finally:
            self.depth -= 1
        return None


def protocol_errors():
    import pynmeagps.exceptions as nme
    import pyrtcm.exceptions as rte
    import pyubx2

    return (pyubx2.UBXMessageError, pyubx2.UBXTypeError, pyubx2.UBXParseError, pyubx2.UBXStreamError,
            nme.NMEAMessageError, nme.NMEATypeError, nme.NMEAParseError, nme.NMEAStreamError,
            rte.RTCMMessageError, rte.RTCMParseError, rte.RTCMStreamError, rte.RTCMTypeError)


def is_protocol_error(err):
    """UBX*, NMEA* or RTCM* error classes of the three packages' exceptions modules."""
    mod = type(err).__module__
    name = type(err).__name__
    return (mod in ("pyubx2.exceptions", "pynmeagps.exceptions", "pyrtcm.exceptions")
            and name[:3] in ("UBX", "NME", "RTC"))


def proto_of(raw: bytes) -> int:
    """Independent preamble classifier: 2 UBX, 1 NMEA, 4 RTCM3, 0 none."""
    from vp.props.c18 import ref_protocol

    if len(raw) < 2:
        return 0
    return ref_protocol(raw[0:2])


PNAME = {2: "ubx", 1: "nmea", 4: "rtcm", 0: "none"}


def direct_parse(frame: bytes, opts):
    """Call the protocol's own parser on one frame with the reader's options.
    -> ("ok", parsed) | ("rej", exc) | ("foreign", exc)"""
    import pyubx2
    from pynmeagps import NMEAReader
    from pyrtcm import RTCMReader

    p = proto_of(frame)
    try:
        if p == 2:
            return "ok", pyubx2.UBXReader.parse(frame, msgmode=opts.get("msgmode", 0),
                                                validate=opts.get("validate", 1),
                                                parsebitfield=opts.get("parsebitfield", 1))
        if p == 1:
            return "ok", NMEAReader.parse(frame, validate=opts.get("validate", 1),
                                          msgmode=opts.get("msgmode", 0))
        if p == 4:
            return "ok", RTCMReader.parse(frame, validate=opts.get("validate", 1), labelmsm=opts.get("labelmsm", 1))
    except Exception as err:  # noqa
        return ("rej" if is_protocol_error(err) else "foreign"), err
    return "rej", ValueError("no protocol")


def same_parsed(a, b) -> bool:
    import pyubx2

    if a is None or b is None:
        return a is None and b is None
    if type(a) is not type(b):
        return False
    try:
        if isinstance(a, pyubx2.UBXMessage):
            if a.serialize() != b.serialize() or a.msgmode != b.msgmode or a.identity != b.identity:
                return False
            pa = [(k, v) for k, v in vars(a).items() if not k.startswith("_")]
            pb = [(k, v) for k, v in vars(b).items() if not k.startswith("_")]
            if [k for k, _ in pa] != [k for k, _ in pb]:
                return False
            return all(codec.float_same(x, y) if isinstance(x, float) or isinstance(y, float) else x == y
                       for (_, x), (_, y) in zip(pa, pb))
        return a.serialize() == b.serialize() and str(a) == str(b)
    except Exception:  # noqa
        return False


def safe_str(x, n=80):
    try:
        return str(x)[:n]
    except Exception as err:  # noqa
        return f"<str() raised {type(err).__name__}>"


def same_items(xs, ys):
    if len(xs) != len(ys):
        return False
    return all(x[0] == y[0] and same_parsed(x[1], y[1]) for x, y in zip(xs, ys))


def mk_reader(stream, opts, handler=None):
    import pyubx2

    kw = dict(msgmode=opts.get("msgmode", 0), validate=opts.get("validate", 1),
              protfilter=opts.get("protfilter", 7), quitonerror=opts.get("quitonerror", 0),
              parsebitfield=opts.get("parsebitfield", 1), parsing=opts.get("parsing", True))
    if "bufsize" in opts:
        kw["bufsize"] = opts["bufsize"]
    if "labelmsm" in opts:
        kw["labelmsm"] = opts["labelmsm"]
    if handler is not None:
        kw["errorhandler"] = handler
    rd = pyubx2.UBXReader(stream, **kw)
    # a second, differently configured reader over another stream stays alive while
    # this one is used: readers are independent objects
    try:
        rival = pyubx2.UBXReader(io.BytesIO(b"\xb5\x62\x05\x01\x02\x00\x06\x01\x0f\x38"),
                                 msgmode=(kw["msgmode"] + 1) % 3, validate=0 if kw["validate"] else 1,
                                 protfilter=(7 ^ kw["protfilter"]) or 7, quitonerror=(kw["quitonerror"] + 1) % 3,
                                 parsebitfield=not kw["parsebitfield"], parsing=not kw["parsing"],
                                 errorhandler=_RIVALS.append)
        _RIVALS.append(rival)
        del _RIVALS[:-4]
    except Exception:  # noqa - the rival is scenery; its construction is not under test here
        pass
    return rd


_RIVALS = []


@contextlib.contextmanager
def deadline(seconds=60):
    """A blocking call that never returns (a lock that is never released, a read
    that waits for ever) cannot be caught by counting steps: an interval timer
    interrupts it and HarnessHang is raised in the main thread.  The budget is
    orders of magnitude above what any case needs (cases take milliseconds)."""
    import signal
    import threading

    if (threading.current_thread() is not threading.main_thread() or _DEADLINE[0]
            or signal.getsignal(signal.SIGALRM) is None):  # (a non-Python handler, e.g. libFuzzer's, owns the alarm)
        yield
        return

    if _HANGS[0]:
        seconds = 6  # a hang was already observed in this process: do not wait as long again

    def on_alarm(signum, frame):
        _HANGS[0] += 1
        raise HarnessHang(f"blocked for more than {seconds} s")

    _DEADLINE[0] = True
    old = signal.signal(signal.SIGALRM, on_alarm)
    signal.setitimer(signal.ITIMER_REAL, seconds)
    try:
        yield
    finally:
        signal.setitimer(signal.ITIMER_REAL, 0)
        signal.signal(signal.SIGALRM, old)
        _DEADLINE[0] = False


_DEADLINE = [False]
_HANGS = [0]


def read_all(stream, opts, handler=None, resume=False, limit=None):
    """Iterate a reader to the end.  -> (items, exc | None).
    resume=True: after an exception the iteration is resumed (ERR_RAISE traces)."""
    with deadline():
        return _read_all(stream, opts, handler, resume, limit)


def _read_all(stream, opts, handler=None, resume=False, limit=None):
    rd = mk_reader(stream, opts, handler)
    if hasattr(handler, "bind"):
        handler.bind(rd)
    items, excs = [], []
    steps = 0
    if limit is None and resume:
        limit = 1000000
    while True:
        steps += 1
        if limit is not None and steps > limit:
            raise HarnessHang("reader did not finish")
        try:
            raw, parsed = rd.read()
        except HarnessHang:
            raise
        except Exception as err:  # noqa
            excs.append(err)
            if resume:
                items.append(("exc", err))
                continue
            return items, err
        if raw is None and parsed is None:
            return items, None
        items.append((raw, parsed))


def opts_label(o):
    return (f"mode={o.get('msgmode', 0)},val={o.get('validate', 1)},pf={o.get('protfilter', 7)},"
            f"qe={o.get('quitonerror', 0)},bf={o.get('parsebitfield', 1)},parsing={o.get('parsing', True)}")
