"""C08 - no input makes parsing or reading fail with a foreign exception or hang.

Domain   (a) parse: checksum-valid frames of every defined message whose payload
         is a conforming payload cut or padded to every length 0..len+8 (quick:
         field boundaries +-1 and a sample), x msgmode x validate x bitfield;
         arbitrary byte strings; (b) reader: garbage streams (valid, mutated,
         truncated frames, preamble fragments, noise) x msgmode x validate x
         protfilter x parsing x quitonerror {IGNORE, LOG, RAISE}; (c) thorough:
         atheris coverage-guided fuzzing of the same oracle.
Oracle   parse returns or raises one of the four UBX* error classes; every
         returned message answers str, repr, identity, length, payload,
         msgmode, serialize without raising.  Reader: iteration terminates
         within the stream-call bound; IGNORE / LOG never raise; RAISE raises
         only UBX*, NMEA* or RTCM* protocol errors.
"""

import traceback

import os

from hypothesis import strategies as st

from vp import core
from vp.gen import frames as gframes
from vp.gen import layout, streams
from vp.props import common as C
from vp.props import streamlib as S
from vp.ref import catalog, codec
from vp.ref import grammar as G

PROP = "C08"
LEVEL = "exploration"
TECHNIQUE = ("property-based testing (Hypothesis) + systematic truncation/padding of conforming "
             "payloads of every definition + (thorough) atheris coverage-guided fuzzing; oracle = "
             "exception-class membership, inspectability, and a stream-call bound (no clock)")
RULE = ("case = frame handed to parse (with mode/validate/bf) or stream handed to a reader (with "
        "options); non-trivial = checksum-valid frame of a defined message whose payload length "
        "differs from the conforming length, or a stream containing at least one frame its parser "
        "rejects / a fragment; truncation sweeps of one payload are distinct by construction")
ASSUMPTIONS = [
    "legal outcomes of parse are exactly UBXMessageError, UBXParseError, UBXStreamError, UBXTypeError",
    "for ERR_RAISE the legal classes are the UBX*/NMEA*/RTCM* errors of the three packages' "
    "exceptions modules",
    "non-termination is detected logically (stream-call budget 6*len+16), never by a timeout",
]

INSPECT = ("str", "repr", "identity", "length", "payload", "msgmode", "serialize")


def floors(tier):
    return {"parse:len!=conforming": 5000, "parse:accepted": 3000, "parse:rejected": 2000,
            "stream": 2500, "stream:pipe-like": 800, "deep-run": 50, "socket": 400, "parse:prefix": 5000, "stream:qe=2": 500, "stream:has-rejected": 500, "bytes": 500, "edge-payload": 100000}


def plan(tier, seed):
    targets = C.cat()[0]
    idx = list(range(len(targets)))
    specs = [{"what": "lengths", "targets": p} for p in C.split_round_robin(idx, 24)]
    specs += [{"what": "streams", "part": i} for i in range(12)]
    specs += [{"what": "bytes"}, {"what": "sockets", "part": 0}, {"what": "sockets", "part": 1},
              {"what": "depth", "part": 0}, {"what": "depth", "part": 1}]
    if tier == "thorough":
        specs += [{"what": "atheris", "part": i, "corpus": "valid" if i % 4 else "empty"} for i in range(16)]
    return specs


def where(err):
    """(module.function) of the innermost frame inside one of the three packages."""
    tb = traceback.extract_tb(err.__traceback__)
    best = None
    for fr in tb:
        fn = fr.filename.replace("\\", "/")
        for pkg in ("pyubx2", "pynmeagps", "pyrtcm"):
            if f"/{pkg}/" in fn:
                best = f"{pkg}.{fn.rsplit('/', 1)[1][:-3]}.{fr.name}"
    return best or "outside"


def judge_parse(frame, mode, validate, bf):
    """-> (outcome, viol list)"""
    import pyubx2

    try:
        m = C.uparse(frame, mode, validate, bf)
    except C.ubx_errors():
        return "rejected", []
    except Exception as err:  # noqa
        return "foreign", [(f"{PROP}|parse|{type(err).__name__}|{where(err)}",
                            f"parse({frame[:40].hex()}{'..' if len(frame) > 40 else ''}, msgmode={mode}, "
                            f"validate={validate}, bf={bf}) raised {err!r}"[:300])]
    viol = []
    for what in INSPECT:
        try:
            if what == "str":
                str(m)
            elif what == "repr":
                repr(m)
            elif what == "serialize":
                m.serialize()
            else:
                getattr(m, what)
        except Exception as err:  # noqa
            viol.append((f"{PROP}|inspect:{what}|{type(err).__name__}|{where(err)}",
                         f"{what} of parse({frame[:40].hex()}, msgmode={mode}, bf={bf}) raised {err!r}"[:300]))
            break
    return "accepted", viol


def judge_stream(data, opts, pipe=False):
    import logging

    ts = S.pipe_stream(data) if pipe else S.TrackingStream(data)
    errs = []
    handler = S.handler_returning(len(data), errs) if (opts.get("quitonerror") == 1 and opts.get("handler", True)) else None
    if handler is not None and len(data) % 6 == 5:
        handler = S.ReentrantHandler()  # the handler reads on from the same reader
    core.log_off()
    try:
        try:
            # under ERR_RAISE the reader is used on after each protocol error it raises
            items, exc = S.read_all(ts, opts, handler, resume=opts.get("quitonerror") == 2,
                                    limit=4 * len(data) + 50)
        except S.HarnessHang as err:
            return [(f"{PROP}|hang", f"reader did not terminate: {err}; stream {data[:40].hex()} "
                                     f"{S.opts_label(opts)}")]
        if opts.get("quitonerror") == 2:
            exc = next((e[1] for e in items if e[0] == "exc" and not S.is_protocol_error(e[1])), None)
        if exc is None:
            return []
        if opts.get("quitonerror") == 2 and S.is_protocol_error(exc):
            return []
        return [(f"{PROP}|read|{type(exc).__name__}|{where(exc)}",
                 f"read() raised {exc!r} with {S.opts_label(opts)} on stream {data[:60].hex()}"[:320])]
    finally:
        core.log_on()


def check_pollresp(case) -> core.Out:
    """A receiver that only speaks when polled: one thread iterates over the reader, another
    writes the polls through reader.datastream; after n answers the receiver hangs up.  The
    iteration must terminate with the n answers (a reader that holds a lock while it waits
    for data never lets the poll out)."""
    import socket
    import threading

    n = case["polls"]
    out = core.Out(classes=["poll-response"], dig=None)
    out.nontrivial = True
    out.sample = {"polls": n}
    ans = codec.ubx_frame(b"\x0a", b"\x04", b"ROM CORE 3.01 (107888)".ljust(30, b"\0") + b"00080000".ljust(10, b"\0"))
    poll = codec.ubx_frame(b"\x0a", b"\x04", b"")
    a, b = socket.socketpair()
    a.settimeout(180)  # (far longer than the budget below: the receiver never gives up first)
    got, errs = [], []

    def receiver():
        try:
            for _ in range(n):
                need = len(poll)
                while need > 0:
                    chunk = a.recv(need)
                    if not chunk:
                        return
                    need -= len(chunk)
                a.sendall(ans)
        except OSError as err:
            errs.append(err)
        finally:
            a.close()

    holder = {}
    ready = threading.Event()

    def reading():
        try:
            # (the wrapper's constructor waits for the first bytes: the first poll is sent on
            # the socket itself before the reader exists)
            b.sendall(poll)
            rd = S.mk_reader(b, {"quitonerror": 0, "bufsize": case.get("bufsize", 4096)})
            holder["rd"] = rd
            ready.set()
            for raw, parsed in rd:
                got.append(raw)
        except Exception as err:  # noqa
            errs.append(err)
        finally:
            ready.set()

    def writing():
        try:
            ready.wait(20)
            rd = holder.get("rd")
            for _ in range(n - 1):
                if rd is None:
                    return
                rd.datastream.write(poll)
                # (the answer is awaited by the reading thread; the next poll follows at once -
                # the receiver serves them one by one)
        except OSError as err:
            errs.append(err)

    ths = [threading.Thread(target=f, daemon=True) for f in (receiver, reading, writing)]
    for t in ths:
        t.start()
    ths[1].join(45)
    hung = ths[1].is_alive()
    try:
        b.close()
    except OSError:
        pass
    for t in ths:
        t.join(2)
    if hung:
        out.viol.append((f"{PROP}|hang|poll-response", f"iteration over a reader whose polls are written by another thread "
                                                       f"did not end within 45 s ({len(got)} of {n} answers read)"))
    elif len(got) != n or any(g != ans for g in got):
        foreign = [e for e in errs if not isinstance(e, OSError)]
        if foreign:
            out.viol.append((f"{PROP}|read|{type(foreign[0]).__name__}|poll-response", repr(foreign[0])[:200]))
    return out


def check(case) -> core.Out:
    k = case["kind"]
    if k == "pollresp":
        return check_pollresp(case)
    if k == "frame":
        frame = bytes(case["frame"])
        o, viol = judge_parse(frame, case["mode"], case["validate"], case["bf"])
        out = core.Out(viol=viol, classes=["bytes", f"parse:{o}"], dig=core.digest((frame, case["mode"],
                                                                                     case["validate"], case["bf"])))
        out.nontrivial = True
        return out
    if k == "lengths":
        clsid, payload, mode, validate, bf = (bytes(case["clsid"]), bytes(case["payload"]), case["mode"],
                                              case["validate"], case["bf"])
        L = len(payload)
        lens = case["lens"]
        counts = {"parse:accepted": 0, "parse:rejected": 0, "parse:foreign": 0, "parse:len!=conforming": 0}
        viol, seen = [], set()
        for n in lens:
            p = payload[:n] if n <= L else payload + bytes((i * 37 + n) & 0xFF for i in range(n - L))
            frame = codec.ubx_frame(clsid[0:1], clsid[1:2], p)
            o, v = judge_parse(frame, mode, validate, bf)
            counts[f"parse:{o}"] += 1
            if n != L:
                counts["parse:len!=conforming"] += 1
            for kk, d in v:
                if kk not in seen:
                    seen.add(kk)
                    viol.append((kk, d))
        # every short prefix (and the last bytes cut off) of the conforming frame,
        # handed to parse as it is - with and without validation, in the given
        # mode and in SETPOLL
        full = codec.ubx_frame(clsid[0:1], clsid[1:2], payload)
        npre = 0
        for k in sorted(set(range(0, min(len(full), 14))) | {len(full) - 1, len(full) - 2, len(full) - 3}):
            if k < 0:
                continue
            for md in (mode, 3):
                for val in (1, 0):
                    o, v = judge_parse(full[:k], md, val, bf)
                    npre += 1
                    counts[f"parse:{o}"] += 1
                    for kk, d in v:
                        if kk not in seen:
                            seen.add(kk)
                            viol.append((kk, d))
        counts["parse:prefix"] = npre
        out = core.Out(viol=viol, classes=[f"mode={C.MODES[mode]}"], counts=counts, n=len(lens) + npre,
                       nt=sum(1 for n in lens if n != L), dig=core.digest((clsid, payload, mode, validate, bf)))
        out.nontrivial = True
        out.sample = {"clsid": clsid, "definition": case.get("defname"), "conforming_len": L,
                      "lengths_tried": len(lens), "mode": C.MODES[mode]}
        return out
    if k == "socket":
        data = bytes(case["data"])
        opts = dict(case["opts"])
        sock = S.ScriptedSocket(data, case["chunks"], case["end"])
        viol = []
        import logging

        core.log_off()
        try:
            try:
                items, exc = S.read_all(sock, dict(opts, bufsize=case["bufsize"]),
                                        S.handler_returning(len(data)) if opts.get("quitonerror") == 1 else None,
                                        limit=4 * len(data) + 50)
                if exc is not None and not (opts.get("quitonerror") == 2 and S.is_protocol_error(exc)):
                    viol.append((f"{PROP}|read|{type(exc).__name__}|{where(exc)}",
                                 f"read() over a socket raised {exc!r} ({S.opts_label(opts)}) data {data[:40].hex()}"))
            except S.HarnessHang as err:
                viol.append((f"{PROP}|socket-hang", f"reader over a socket did not terminate ({err}); data "
                                                    f"{data[:40].hex()} chunks {case['chunks'][:8]} end {case['end']} "
                                                    f"bufsize {case['bufsize']}"))
        finally:
            core.log_on()
            sock.close()
        out = core.Out(viol=viol, classes=["socket", f"end={case['end']}"],
                       dig=core.digest((data, case["chunks"], case["end"], case["bufsize"], sorted(opts.items()))))
        out.nontrivial = True
        out.sample = {"data": data[:40], "chunks": case["chunks"][:8], "end": case["end"], "opts": opts}
        return out
    if k == "stream":
        data = bytes(case["data"])
        opts = dict(case["opts"])
        viol = judge_stream(data, opts, pipe=bool(case.get("pipe")))
        classes = ["stream", f"stream:qe={opts.get('quitonerror')}"] + (["stream:pipe-like"] if case.get("pipe") else [])
        if case.get("has_rejected"):
            classes.append("stream:has-rejected")
        out = core.Out(viol=viol, classes=classes, dig=core.digest((data, sorted(opts.items()))))
        out.nontrivial = bool(case.get("has_rejected"))
        out.sample = {"stream": data[:48], "len": len(data), "opts": opts}
        return out
    raise ValueError(k)


SOPTS = st.fixed_dictionaries({
    "msgmode": st.sampled_from([0, 0, 1, 2, 3]),
    "validate": st.sampled_from([1, 0]),
    "protfilter": st.sampled_from([7, 7, 7, 1, 2, 4, 3, 5, 6, 0]),
    "parsing": st.sampled_from([True, True, True, False]),
    "quitonerror": st.sampled_from([0, 1, 2]),
    "parsebitfield": st.sampled_from([1, 0]),
    "handler": st.booleans(),
})


def run_shard(spec, ctx, acc):
    known = set(ctx["known"])
    tier = ctx["tier"]
    if spec["what"] == "atheris":
        run_atheris(spec, ctx, acc)
        return
    if spec["what"] == "lengths":
        targets = C.cat()[0]
        for ti in spec["targets"]:
            t = targets[ti]
            if G.audit_fatal(t.defn):
                acc.skipped["grammar"] += 1
                continue
            forced = catalog.forced_for(t) or {}

            def mk(tp, t=t):
                nodes, mode, validate, bf, rnd = tp
                payload = G.encode(nodes)
                L = len(payload)
                if tier == "quick":
                    spans, _ = G.leaf_spans(nodes)
                    lens = {0, 1, 2, L - 1, L, L + 1, L + 2, L + 8}
                    for _n, s, e in spans[:40]:
                        lens |= {s - 1, s, s + 1, e}
                    lens |= {(rnd * (i + 1) * 7919) % (L + 9) for i in range(max(4, (L + 9) // 3))}
                    lens = sorted(x for x in lens if 0 <= x <= L + 8)
                else:
                    lens = list(range(0, L + 9))
                return {"kind": "lengths", "clsid": t.clsid, "defname": t.defname, "payload": payload,
                        "mode": mode, "validate": validate, "bf": bf, "lens": lens}

            strat = st.tuples(
                layout.instances(t.defn, mode=t.mode, clsid=t.clsid, forced=forced,
                                 max_payload=400 if tier == "quick" else 3000, big_counts=False),
                st.sampled_from([t.mode, t.mode, 3, 0, 1, 2]), st.sampled_from([1, 1, 0]),
                st.sampled_from([1, 0]), st.integers(1, 10 ** 6)).map(mk)
            core.hyp_search(acc, strat, check, seed=core.derive(ctx["seed"], PROP, t.label),
                            max_examples=3 if tier == "quick" else 25, known=known, rounds=3, shrink=False)
        # the deterministic edge payloads of C01 (every value of the first / last byte
        # at each natural size, special tails): parse and inspect each
        from vp.props import c01

        for ti in spec["targets"]:
            for ec in c01.edge_cases(targets[ti], tier, ctx["seed"]):
                case = {"kind": "frame", "frame": codec.ubx_frame(ec["clsid"][0:1], ec["clsid"][1:2], ec["payload"]),
                        "mode": ec["mode"], "validate": 1, "bf": ec["bf"]}
                o = core.checked(check, case)
                o.classes = list(o.classes) + ["edge-payload"]
                if core.handle(acc, o, case, known) and len(acc.violations) >= core.MAX_VIOL_PER_SHARD:
                    break
        return
    if spec["what"] == "streams":
        def mk(t):
            items, opts = t
            rej = any(i["p"] == "frag" or i["tag"] in ("badck", "badcrc", "empty", "tiny", "odd", "mutfield")
                      for i in items)
            data = streams.stream_bytes(items)
            cut = opts.pop("_cut", None)
            if cut is not None and data:
                data = data[: cut % (len(data) + 1)]  # the source ends mid-frame
            return {"kind": "stream", "data": data, "opts": opts, "has_rejected": rej, "pipe": opts.pop("_pipe", False)}

        sopts2 = st.tuples(SOPTS, st.booleans(), st.one_of(st.none(), st.integers(0, 10 ** 6))).map(
            lambda t: dict(t[0], _pipe=t[1], _cut=t[2]))
        strat = st.tuples(st.one_of(streams.garbage_streams(), streams.clean_streams(1, 5)), sopts2).map(mk)
        core.hyp_search(acc, strat, check, seed=core.derive(ctx["seed"], PROP, "s", spec["part"]),
                        max_examples=350 if tier == "quick" else 9000, known=known, rounds=4)
        return
    if spec["what"] == "depth":
        # thousands of complete small frames back to back: accepted, rejected and -
        # with a protocol filter - skipped ones (anything that grows with the number
        # of consecutive frames of one kind shows here)
        ack = codec.ubx_frame(b"\x05", b"\x01", b"\x06\x01")
        bad = ack[:-1] + b"\x00"
        txt = codec.nmea_frame("GNTXT,01,01,02,A")
        rt = codec.rtcm_frame(bytes.fromhex("3ed00003"))
        runs = [ack * 1200 + txt * 2, txt * 1200 + ack, rt * 1200 + ack + txt, bad * 1200 + ack,
                (ack + txt + rt) * 420, codec.nmea_frame("GNTXT,01,01,02,A", good=False) * 1200 + ack]
        # nested candidates: thousands of headers, each one's declared extent covering the
        # next header (false syncs inside false syncs), then room for all of them and a frame
        for hdr in (b"\xb5\x62\x01\x01\x08\x00", b"\xb5\x62\x05\x01\x02\x00", b"\xb5\x62\x77\x01\x00\x01",
                    b"\xd3\x00\x08", b"\xd3\x00\x00", b"$GNGLL,1,", b"\xb5\x62", b"$G\xb5\x62\xd3\x00\x04"):
            runs.append(hdr * 3000 + bytes(300) + ack + txt)
        # a small stream of every protocol (accepted and rejected frames) under every interpreter
        # environment x parsing on / off x every error mode (enumerated, not left to the draw)
        if spec["part"] == 0:
            mixed = (ack + txt + rt + bad + codec.nmea_frame("GNTXT,01,01,02,A", good=False) + codec.rtcm_frame(b"\x3e")
                     + codec.ubx_frame(b"\x13", b"\x40", bytes([0x10, 0]) + bytes(22)) + codec.ubx_frame(b"\x77", b"\x01", b"\x01")
                     + b"\xb5\x00" + ack + ack[:5])
            for env in (None,) + tuple(core.ENVS):
                for parsing in (True, False):
                    for qe in (0, 1, 2):
                        for pf in (7, 2):
                            case = {"kind": "stream", "data": mixed, "has_rejected": True, "pipe": False,
                                    "opts": {"msgmode": 0, "validate": 1, "protfilter": pf, "parsing": parsing,
                                             "quitonerror": qe, "parsebitfield": 1, "handler": True}}
                            o = core.checked(check, case, env=env)
                            o.classes = list(o.classes) + ["every-environment"]
                            core.handle(acc, o, case, known)
        for j, data in enumerate(runs):
            if j % 2 != spec["part"] % 2:
                continue
            for pf in (7, 1, 2, 4, 0, 5):
                for qe in (0, 1, 2):
                    case = {"kind": "stream", "data": data, "has_rejected": j in (3, 5) or j >= 6, "pipe": False,
                            "opts": {"msgmode": 0, "validate": 1, "protfilter": pf, "parsing": True, "quitonerror": qe,
                                     "parsebitfield": 1, "handler": True}}
                    o = core.checked(check, case)
                    o.classes = list(o.classes) + ["deep-run"]
                    o.sample = {"stream": data[:24], "len": len(data), "repeats": 1200, "opts": case["opts"]}
                    core.handle(acc, o, case, known)
        return
    if spec["what"] == "sockets" and spec["part"] == 0:
        for polls, bufsize in ((1, 4096), (5, 4096), (40, 64)):
            case = {"kind": "pollresp", "polls": polls, "bufsize": bufsize}
            core.handle(acc, check(case), case, known)
    if spec["what"] == "sockets":
        @st.composite
        def sk(draw):
            items = draw(st.one_of(streams.clean_streams(1, 4), streams.garbage_streams(5)))
            data = streams.stream_bytes(items)
            if data and draw(st.booleans()):
                data = data[:draw(st.integers(0, len(data)))]  # the peer goes away mid-frame
            n = len(data)
            from vp.props import c10

            chunks = draw(st.one_of(st.lists(st.integers(1, max(1, n)), max_size=12), c10.schedules(items, n)))
            o = draw(SOPTS)
            return {"kind": "socket", "data": data, "chunks": chunks, "end": draw(st.sampled_from(["close", "timeout", "oserror"])),
                    "bufsize": draw(st.sampled_from([1, 4, 16, 4096])), "opts": {k_: v for k_, v in o.items() if k_ != "handler"}}

        core.hyp_search(acc, sk(), check, seed=core.derive(ctx["seed"], PROP, "sock", spec["part"]),
                        max_examples=300 if tier == "quick" else 6000, known=known, rounds=3)
        return
    # arbitrary byte strings handed to parse
    strat = st.tuples(
        st.one_of(st.binary(max_size=60), st.binary(max_size=40).map(lambda b: b"\xb5\x62" + b),
                  st.tuples(gframes.odd_clsid(), st.binary(max_size=30)).map(
                      lambda t: codec.ubx_frame(t[0][1][0:1], t[0][1][1:2], t[1])),
                  st.sampled_from([b"", b"\xb5", b"\xb5\x62", b"\xb5\x62\x13\x40\x00\x00\x53\xac"])),
        st.sampled_from([0, 1, 2, 3]), st.sampled_from([1, 0]), st.sampled_from([1, 0])).map(
        lambda t: {"kind": "frame", "frame": t[0], "mode": t[1], "validate": t[2], "bf": t[3]})
    core.hyp_search(acc, strat, check, seed=core.derive(ctx["seed"], PROP, "bytes"),
                    max_examples=1500 if tier == "quick" else 60000, known=known, rounds=4)
    # messages that *refer* to another message by class/ID (ACK-ACK, ACK-NAK,
    # CFG-MSG: str() renders the reference by name, see README): every known
    # class/ID pair, plus unknown ones, as the referenced message
    import pyubx2

    refs = sorted({k[0:2] for k in pyubx2.UBX_MSGIDS}) + [b"\x99\x99", b"\x13\x99", b"\x00\x00", b"\xff\xff"]
    for ref in refs:
        for clsid, tails, modes in ((b"\x05\x01", [b""], (0,)), (b"\x05\x00", [b""], (0,)),
                                    (b"\x06\x01", [b"", b"\x01", b"\x00\x01\x00\x01\x00\x00"], (1, 2, 0, 3))):
            for tail in tails:
                for mode in modes:
                    case = {"kind": "frame", "frame": codec.ubx_frame(clsid[0:1], clsid[1:2], ref + tail),
                            "mode": mode, "validate": 1, "bf": 1}
                    o = core.checked(check, case)
                    o.classes = list(o.classes) + ["refers-to-message"]
                    core.handle(acc, o, case, known)
    # very long inputs (length fields cannot express them)
    for n in (65536 + 8, 70000):
        for validate in (1, 0):
            case = {"kind": "frame", "frame": b"\xb5\x62\x01\x07" + bytes(n - 4), "mode": 0,
                    "validate": validate, "bf": 1}
            core.handle(acc, core.checked(check, case), case, known)


def run_atheris(spec, ctx, acc):
    """Coverage-guided campaign (thorough tier): the oracle of this module runs
    inside the fuzz target; each new violation key is saved with its input."""
    from vp.fuzz import driver

    try:
        core.ensure_deps(("atheris",))
    except core.HarnessError as err:
        acc.errors.append(f"atheris unavailable: {err}")
        return
    runs = int(os.environ.get("VP_FUZZ_RUNS", "100000"))
    stats, viols, err, ncorpus = driver.run_campaign(
        PROP, f"shard{spec['part']}", core.derive(ctx["seed"], PROP, "atheris", spec["part"]), runs,
        spec["corpus"], set(ctx["known"]))
    if err:
        acc.errors.append(err)
    n = stats.get("runs", 0)
    acc.evaluations += n
    acc.nontrivial_extra += stats.get("nontrivial", 0)  # coverage-guided inputs; duplicates possible
    acc.classes["atheris-runs"] += n
    acc.classes[f"atheris-corpus={spec['corpus']}"] += n
    acc.extra.setdefault("atheris", {})[f"shard{spec['part']}"] = dict(stats, corpus=spec["corpus"], final_corpus=ncorpus)
    if stats.get("known_hits"):
        acc.known_hits["(atheris) listed findings"] += stats["known_hits"]
    for v in viols:
        if not any(x["key"] == v["key"] for x in acc.violations):
            acc.violations.append({"key": v["key"], "case": v["case"], "detail": v["detail"]})
