"""C15 under `python -O` (assert statements removed): a deterministic enumeration of
values one step outside each field's range, in a child interpreter started with
-O.  A value that does not fit must be refused with a UBX error whatever the
interpreter flags.

  python -O -m vp.props.c15_opt <part> <of>      enumerate (one JSON line on stdout)
  python -O -m vp.props.c15_opt --case <json>    one case (used by replays)
"""

import json
import sys

PROP = "C15"


def cases_for(t):
    from vp.props import c15, c16
    from vp.ref import codec
    from vp.ref import grammar as G

    try:
        nodes = c16.nominal_nodes(t)
        kw = c16.nominal_kwargs(t, nodes)
    except Exception:  # noqa
        return
    guard = set(G.count_names(t.defn)) | set(kw)
    for bf in (1, 0):
        for name, _spec in G.expect(nodes, bf):
            if name in guard:
                continue
            fld = c15.find_field(nodes, name, bf)
            if fld is None:
                continue
            kind, nd, fl = fld
            if kind == "flag":
                w = codec.tsize(fl[1])
                vals, fk = [1 << w, (1 << w) + 1, -1], "flag"
            elif kind == "bits":
                n = codec.tsize(nd[2])
                vals, fk = [bytes(n + 1), bytes(max(0, n - 1))], "bitfield"
            elif nd[3] is None and nd[2] != "CH" and nd[2][0] in codec.INT_LETTERS:
                lo, hi = codec.int_range(nd[2])
                vals, fk = [hi + 1, lo - 1], "int"
            else:
                continue
            for v in vals:
                yield {"kind": "optimised", "mode": t.mode, "clsid": t.clsid, "defname": t.defname, "bf": bf,
                       "kw": sorted(kw.items()), "attr": name, "val": v, "fk": fk}


def judge(case):
    """-> [(key, detail)]"""
    import pyubx2

    from vp.props import c15
    from vp.props import common as C

    clsid = bytes(case["clsid"])
    kw = dict(tuple(x) for x in case["kw"])
    kw[case["attr"]] = case["val"]
    vk = c15.value_kind(case["val"])
    try:
        m = pyubx2.UBXMessage(clsid[0:1], clsid[1:2], case["mode"], parsebitfield=case["bf"], **kw)
    except C.ubx_errors():
        return []
    except Exception as err:  # noqa
        return [(f"{PROP}|{case['fk']}|{vk}|escapes:{type(err).__name__}",
                 f"{C.MODES[case['mode']]} {case['defname']} {case['attr']}={case['val']!r:.40} under python -O: {err!r}"[:300])]
    return [(f"{PROP}|{case['fk']}|{vk}|accepted-unrepresentable",
             f"{C.MODES[case['mode']]} {case['defname']} bf={case['bf']} {case['attr']}={case['val']!r:.40} is accepted when the "
             f"interpreter runs with -O (payload {(m.payload or b'').hex()[:48]}); the field cannot hold that value")]


def main():
    from vp import core

    core.setup_paths()
    if sys.argv[1] == "--case":
        case = core.jdec(json.loads(sys.argv[2]))
        print(json.dumps({"viol": [[k, d] for k, d in judge(case)], "optimised": not __debug__}))
        return
    part, of = int(sys.argv[1]), int(sys.argv[2])
    from vp.props import c03, c16
    from vp.props import common as C
    from vp.ref import grammar as G

    n = 0
    viol, seen = [], set()
    for i, t in enumerate(C.cat()[0]):
        if i % of != part or G.audit_fatal(t.defn) or not c16.kw_constructible(t) or c03.has_hp(t.defn):
            continue
        for case in cases_for(t):
            n += 1
            for k, d in judge(case):
                if k not in seen:
                    seen.add(k)
                    viol.append([k, d, core.jenc(case)])
    print(json.dumps({"n": n, "nt": n, "viol": viol, "optimised": not __debug__}))


if __name__ == "__main__":
    main()
