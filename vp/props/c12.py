"""C12 - quitonerror decides how a rejected frame is reported, not which frames arrive.

Domain   sequences of good and corrupted frames of the three protocols
         (corruption preserving frame boundaries) and arbitrary garbage
         streams x quitonerror in {IGNORE, LOG, RAISE} x handler present/absent.
Oracle   event traces.  LOG + handler gives a trace of item / err events;
         IGNORE delivers the same items; RAISE, resumed after every exception,
         yields the same trace (items equal, exceptions equal by class and
         text) - hence "same items up to the first rejected frame, then that
         exception".  For constructed streams the err events must be exactly
         the frames their protocol parser rejects, in order, each with the
         exception that parser raises, and never a delivered frame.  Handler
         absent: same items and one log record per rejection.
"""

import io
import logging

from hypothesis import strategies as st

from vp import core
from vp.gen import streams
from vp.props import streamlib as S

PROP = "C12"
LEVEL = "exploration"
TECHNIQUE = ("property-based testing (Hypothesis) comparing event traces of the same stream under "
             "the three quitonerror settings, with a per-frame direct-parse oracle for the errors")
RULE = ("case = (stream, msgmode/validate options) run under IGNORE, LOG+handler, LOG without "
        "handler and RAISE (resumed); non-trivial = at least one rejected frame with at least one "
        "delivered frame after it; distinct by digest of (stream bytes, options)")
ASSUMPTIONS = [
    "exceptions are compared by class and str()",
    "log records are captured with a logging.Handler on the 'pyubx2' logger hierarchy",
    "streams on which a dependency parser raises a non-protocol exception are left to C08",
]


def floors(tier):
    return {"clean": 800, "garbage": 800, "nontrivial": 300, "has-rejected": 800, "pipe-like-source": 300, "handler=object": 300, "handler=truthy": 200, "handler=true": 200, "handler=method": 200,
            "parsing=False": 300, "framing-rejects": 60}


def plan(tier, seed):
    return [{"part": i} for i in range(16)]


class _Capture(logging.Handler):
    def __init__(self):
        super().__init__(level=logging.DEBUG)
        self.records = []

    def emit(self, record):
        self.records.append(record)


class Collector:
    """An error handler that is a callable *object* - and an empty (falsy) container
    until the first error arrives."""

    def __init__(self, events):
        self.events = events
        self.seen = []

    def __call__(self, err):
        self.seen.append(err)
        self.events.append(("err", err))

    def __len__(self):
        return len(self.seen)


class Reporter:
    def __init__(self, events):
        self.events = events

    def on_error(self, err):
        self.events.append(("err", err))
        return len(self.events)


def trace(data, opts, qe, handler=True):
    """-> (events, foreign_exc | None); events: ("item", raw, parsed) | ("err", exc)"""
    import pyubx2

    events = []
    o = {k: v for k, v in dict(opts, quitonerror=qe).items() if not k.startswith("_")}
    h = None
    if handler and qe == 1:
        hk = opts.get("_handler")
        if hk == "object":
            h = Collector(events)
        elif hk == "method":
            # a bound method of an object nothing else refers to: the reader was handed
            # the only reference and must keep it alive
            import gc

            h = "method"  # (created in the call below: no local name may keep it alive)
        elif hk == "truthy":
            h = lambda e: (events.append(("err", e)), e)[1]  # noqa: E731 - returns something true
        elif hk == "true":
            h = lambda e: (events.append(("err", e)), True)[1]  # noqa: E731 - "handled, carry on"
        else:
            h = lambda e: events.append(("err", e))  # noqa: E731
    stream = S.pipe_stream(data) if opts.get("_pipe") else io.BytesIO(data)
    if h == "method":
        import gc

        rd = S.mk_reader(stream, o, Reporter(events).on_error)
        gc.collect()
    else:
        rd = S.mk_reader(stream, o, h)
    with S.deadline():
        return _trace_loop(rd, data, qe, events)


def _trace_loop(rd, data, qe, events):
    steps = 0
    while True:
        steps += 1
        if steps > 4 * len(data) + 50:
            raise S.HarnessHang("reader did not finish")
        try:
            raw, parsed = rd.read()
        except Exception as err:  # noqa
            if qe == 2 and S.is_protocol_error(err):
                events.append(("err", err))
                continue
            return events, err
        if raw is None and parsed is None:
            return events, None
        events.append(("item", raw, parsed))


def _from_dependency(excs):
    import traceback

    for f in excs:
        if f is None:
            continue
        for fr in traceback.extract_tb(f.__traceback__):
            if "/pynmeagps/" in fr.filename or "/pyrtcm/" in fr.filename:
                return True
    return False


def same_trace(a, b):
    if len(a) != len(b):
        return False
    for x, y in zip(a, b):
        if x[0] != y[0]:
            return False
        if x[0] == "item":
            if x[1] != y[1] or not S.same_parsed(x[2], y[2]):
                return False
        elif type(x[1]) is not type(y[1]) or str(x[1]) != str(y[1]):
            return False
    return True


def brief(ev):
    return [(e[0], (e[1][:6].hex() if e[0] == "item" else type(e[1]).__name__)) for e in ev][:10]


def check_framing(case) -> core.Out:
    data, opts = bytes(case["data"]), dict(case["opts"])
    out = core.Out(classes=["framing-rejects", f"parsing={bool(opts['parsing'])}"], dig=core.digest((data, sorted(opts.items()))))
    out.nontrivial = True
    out.sample = {"stream": data[:48], "opts": opts}
    key = f"{PROP}|framing|"
    for qe, name in ((1, "LOG"), (2, "RAISE")):
        try:
            ev, foreign = trace(data, opts, qe, handler=True)
        except S.HarnessHang:
            out.viol.append((key + f"hang|{name}", "reader did not finish"))
            continue
        if foreign is not None:
            out.viol.append((key + f"raises:{type(foreign).__name__}|{name}", repr(foreign)[:200]))
            continue
        ni = sum(1 for e in ev if e[0] == "item")
        ne = sum(1 for e in ev if e[0] == "err")
        if (ni, ne) != (case["expect_items"], case["expect_errors"]):
            out.viol.append((key + f"count|{name}|parsing={bool(opts['parsing'])}",
                             f"{name}: {ni} items and {ne} reported rejections, expected {case['expect_items']} and "
                             f"{case['expect_errors']} (three unknown header pairs, one frame cut short); stream {data.hex()[:80]}"))
    ev0, f0 = trace(data, opts, 0, handler=False)
    if f0 is not None or sum(1 for e in ev0 if e[0] == "item") != case["expect_items"]:
        out.viol.append((key + "count|IGNORE", f"IGNORE: {brief(ev0)} / {f0!r}"))
    return out


def check(case) -> core.Out:
    if case.get("kind") == "framing-rejects":
        return check_framing(case)
    items, opts, clean = case["items"], dict(case["opts"]), case["clean"]
    data = streams.stream_bytes(items)
    out = core.Out(classes=["clean" if clean else "garbage"] + (["pipe-like-source"] if opts.get("_pipe") else [])
                   + ([f"handler={opts.get('_handler')}"] if opts.get("_handler") else []),
                   dig=core.digest((data, sorted((k, repr(v)) for k, v in opts.items()))))
    lg = logging.getLogger("pyubx2")
    cap = _Capture()
    old_level, old_prop = lg.level, lg.propagate
    lg.addHandler(cap)
    lg.setLevel(logging.DEBUG)
    lg.propagate = False
    try:
        try:
            t_log, f1 = trace(data, opts, 1, handler=True)
            n_rec_before = len(cap.records)
            t_ign, f0 = trace(data, opts, 0)
            t_raise, f2 = trace(data, opts, 2)
            cap.records.clear()
            t_nohandler, f3 = trace(data, opts, 1, handler=False)
            recs = list(cap.records)
        except S.HarnessHang:
            out.classes = ["skipped:hang(C08)"]
            return out
    finally:
        lg.removeHandler(cap)
        lg.setLevel(old_level)
        lg.propagate = old_prop
    if any(f is not None for f in (f0, f1, f2, f3)):
        esc = next((f for f in (f0, f1, f3) if f is not None and S.is_protocol_error(f)), None)
        if esc is not None:
            # a *protocol* error (the rejection itself) came out of read() under ERR_IGNORE /
            # ERR_LOG instead of being reported the way quitonerror prescribes
            out.viol.append((f"{PROP}|rejection-escapes:{type(esc).__name__}",
                             f"{esc!r:.100} escaped from read() with errors ignored / logged; stream {data[:40].hex()}"))
            return out
        if sum(f is not None for f in (f0, f1, f2, f3)) < 4 and not any(
                type(f).__module__.startswith(("pynmeagps", "pyrtcm")) or "pynmeagps" in repr(getattr(f, "__traceback__", ""))
                for f in (f0, f1, f2, f3) if f is not None) and not _from_dependency([f0, f1, f2, f3]):
            # one reporting mode raises a foreign exception on a stream the others read
            # to the end: the mode changed more than the reporting
            which = [n for n, f in zip(("LOG+handler", "IGNORE", "RAISE", "LOG"), (f1, f0, f2, f3)) if f is not None]
            ex = next(f for f in (f0, f1, f2, f3) if f is not None)
            out.viol.append((f"{PROP}|mode-raises:{type(ex).__name__}",
                             f"quitonerror mode(s) {which} raise {ex!r:.80} where the other modes deliver the stream; "
                             f"stream {data[:40].hex()}"))
            return out
        out.classes = ["skipped:foreign-exception(C08)"]
        return out
    key = f"{PROP}|"
    items_log = [e for e in t_log if e[0] == "item"]
    errs_log = [e for e in t_log if e[0] == "err"]
    rejected_then_delivered = any(t_log[i][0] == "err" and any(e[0] == "item" for e in t_log[i + 1:])
                                  for i in range(len(t_log)))
    if errs_log:
        out.classes.append("has-rejected")
    out.nontrivial = rejected_then_delivered
    if out.nontrivial:
        out.classes.append("nontrivial")
    out.sample = {"stream": data[:48], "len": len(data), "opts": opts, "trace": [list(b) for b in brief(t_log)]}
    if n_rec_before:
        out.viol.append((key + "handler-and-logged", "error passed to the handler was also logged"))
    if not same_trace(t_ign, items_log):
        out.viol.append((key + "ignore-vs-log", f"IGNORE delivers {brief(t_ign)}, LOG delivers {brief(items_log)}; "
                                                f"stream {data[:50].hex()} ({S.opts_label(opts)})"))
    if not same_trace(t_raise, t_log):
        out.viol.append((key + "raise-vs-log", f"RAISE (resumed) trace {brief(t_raise)} != LOG trace {brief(t_log)}; "
                                               f"stream {data[:50].hex()} ({S.opts_label(opts)})"))
    if not same_trace([e for e in t_nohandler if e[0] == "item"], items_log):
        out.viol.append((key + "nohandler-items", f"LOG without handler delivers different items; stream {data[:50].hex()}"))
    if len(recs) != len(errs_log) and core.CURRENT_ENV[0] != "log-quiet":
        out.viol.append((key + "nohandler-log-records", f"{len(recs)} log records for {len(errs_log)} rejections; "
                                                        f"stream {data[:50].hex()}"))
    if not opts.get("parsing", True):
        out.classes.append("parsing=False")
    if clean and opts.get("parsing", True):
        want = []
        for it in items:
            if it["p"] == "noise":
                continue
            v, r = S.direct_parse(bytes(it["b"]), opts)
            if v == "foreign":
                out.classes = ["skipped:dependency-foreign-exception"]
                out.viol = []
                return out
            want.append(("item", bytes(it["b"]), r) if v == "ok" else ("err", r))
        if not same_trace(t_log, want):
            out.viol.append((key + "trace-vs-frames",
                             f"LOG trace {brief(t_log)} != per-frame parser verdicts {brief(want)}; "
                             f"stream {data[:50].hex()} ({S.opts_label(opts)})"))
    return out


OPTS = st.fixed_dictionaries({
    "msgmode": st.sampled_from([0, 0, 0, 3, 1, 2]),
    "validate": st.sampled_from([1, 1, 0]),
    "parsebitfield": st.sampled_from([1, 0]),
    "protfilter": st.sampled_from([7, 7, 7, 3]),
    "_handler": st.sampled_from(["function", "object", "truthy", "true", "method"]),
    "_pipe": st.sampled_from([False, False, True]),
    "parsing": st.sampled_from([True, True, True, False]),
})


def run_shard(spec, ctx, acc):
    known = set(ctx["known"])
    quick = ctx["tier"] == "quick"
    # framing-level rejections (header pairs no protocol knows, a final frame cut short) with a
    # known count: every reporting mode, with and without parsing - the comparison between
    # modes alone cannot see a change that silences them all alike
    if spec["part"] < 4:
        import itertools as _it

        ack = S.codec.ubx_frame(b"\x05", b"\x01", b"\x06\x01")
        nmea = S.codec.nmea_frame("GNGLL,5327.04319,N,00214.41396,W,223232.00,A,A")
        pairs = [b"\xb5\x00", b"\xd3\xff", b"$X", b"\xb5\x63", b"\xd3\x04", b"$\x00"]
        for parsing, pf, hk in _it.product((True, False, 0), (7, 3), ("function", "object", "true")):
            seq = [pairs[(spec["part"] + i) % len(pairs)] for i in range(3)]
            data = ack + seq[0] + ack + seq[1] + nmea + seq[2] + ack + ack[:5]
            case = {"kind": "framing-rejects", "data": data, "expect_items": 4, "expect_errors": 4,
                    "opts": {"msgmode": 0, "validate": 1, "parsebitfield": 1, "protfilter": pf, "parsing": parsing,
                             "_handler": hk, "_pipe": False}}
            core.handle(acc, core.checked(check, case), case, known)
    clean = st.tuples(streams.clean_streams(2, 7), OPTS).map(
        lambda t: {"kind": "qe", "items": t[0], "opts": dict(t[1], protfilter=7), "clean": True})
    garb = st.tuples(streams.garbage_streams(8), OPTS).map(
        lambda t: {"kind": "qe", "items": t[0], "opts": t[1], "clean": False})
    core.hyp_search(acc, clean, check, seed=core.derive(ctx["seed"], PROP, "c", spec["part"]),
                    max_examples=90 if quick else 2000, known=known, rounds=3)
    core.hyp_search(acc, garb, check, seed=core.derive(ctx["seed"], PROP, "g", spec["part"]),
                    max_examples=90 if quick else 2000, known=known, rounds=3)
