"""C07 - the reader neither invents, duplicates, reorders nor abandons stream bytes.

Domain   every byte stream: exhaustively all strings over the frame-relevant
         alphabet {b5 62 24 47 d3 00 01 0a} up to length 7 (quick) and over
         {.. 2a 0d} up to length 8 (thorough); randomly: mixtures of valid
         frames, mutated frames, preamble fragments and noise; coverage-guided
         (atheris) in the thorough tier; reader configurations with errors not
         raised (validate x msgmode x protfilter x parsing x {IGNORE, LOG}).
Oracle   invariant over the read history, observed through a tracking stream:
         each raw item equals the stream slice ending at the current position,
         slices do not overlap and are in order, each begins with a UBX / NMEA /
         RTCM3 preamble (independent classifier); when read() reports
         (None, None) the stream has no byte left; the number of stream calls
         stays within the bound any terminating reader obeys.
"""

import itertools

import os

import io

from hypothesis import strategies as st

from vp import core
from vp.gen import streams
from vp.props import streamlib as S

PROP = "C07"
LEVEL = "exploration"
TECHNIQUE = ("exhaustive enumeration of all short strings over a frame-relevant alphabet, "
             "Hypothesis-generated garbage streams and (thorough) atheris coverage-guided fuzzing; "
             "oracle = slice/order/preamble/EOF invariant over a tracking stream")
RULE = ("case = (byte stream, reader options); tiny streams are enumerated exhaustively (distinct "
        "by construction), garbage streams are Hypothesis-generated (distinct by digest); "
        "non-trivial = the stream contains at least one frame-start byte (b5, 24, d3)")
ASSUMPTIONS = [
    "the stream object is observed only through read(n)/readline(), as the reader uses it",
    "a foreign exception escaping read() ends the observation of that stream (judged by C08)",
]

ALPHA8 = (0xB5, 0x62, 0x24, 0x47, 0xD3, 0x00, 0x01, 0x0A)
ALPHA10 = ALPHA8 + (0x2A, 0x0D)

TINY_OPTS = [
    {"msgmode": 0, "validate": 1, "protfilter": 7, "parsing": True, "quitonerror": 0, "parsebitfield": 1},
    {"msgmode": 3, "validate": 0, "protfilter": 7, "parsing": False, "quitonerror": 1, "parsebitfield": 0},
]


def floors(tier):
    return {"tiny": 2000000, "garbage": 3000, "items=0": 1000, "items=1": 1000, "items>=2": 500,
            "has-d3-00-00": 1000, "short-reads": 800, "seekable": 800, "growing-source": 800, "socket-transport": 100, "session>64KiB": 10, "trailing-bytes-outside-items": 1000}


def plan(tier, seed):
    alpha = ALPHA8 if tier == "quick" else ALPHA10
    maxlen = 7 if tier == "quick" else 8
    specs = []
    for a in range(len(alpha)):
        for b in range(len(alpha)):
            specs.append({"what": "tiny", "prefix": [alpha[a], alpha[b]], "maxlen": maxlen,
                          "alpha": list(alpha), "short": a == 0 and b == 0})
    for i in range(16):
        specs.append({"what": "garbage", "part": i})
    for i in range(4):
        specs.append({"what": "socket", "part": i})
    if tier == "thorough":
        for i in range(16):
            specs.append({"what": "atheris", "part": i, "corpus": "valid" if i % 4 else "empty"})
    return specs


def _handler_for(data):
    """ERR_LOG handlers: one returning nothing, one returning something true (a
    running count, the error itself): what a handler returns is its own business."""
    return S.handler_returning(len(data))


def _echo(err):
    return err or True


def _noop(err):
    return None


def judge(data: bytes, opts, bursts=None, seekable=False, grow=None):
    """-> (viol list, nitems, truncated?)"""
    ts = S.TrackingStream(data, bursts, seekable=seekable)
    grow = list(grow or [])
    rd = S.mk_reader(ts, opts, _handler_for(data) if opts.get("quitonerror") == 1 else None)
    prev_end = 0
    nitems = 0
    viol = []
    while True:
        try:
            raw, parsed = rd.read()
        except S.HarnessHang as err:
            viol.append((f"{PROP}|hang", f"{err} on {data[:40].hex()}"))
            break
        except Exception:  # noqa - foreign exception: C08's clause; observation ends
            return viol, nitems, "raised"
        e = ts.tell()
        data = ts.data
        if raw is None and parsed is None and not ts.rest() and grow:
            # the source gains data after end-of-stream was reported: reading must resume
            ts.append(bytes(grow.pop(0)))
            continue
        if raw is None and parsed is None:
            if ts.rest():
                viol.append((f"{PROP}|unread-at-eof",
                             f"read() reported end of stream with {len(ts.rest())} byte(s) unread: "
                             f"stream {data[:40].hex()} pos {e}"))
            break
        nitems += 1
        if not isinstance(raw, bytes):
            viol.append((f"{PROP}|raw-type", f"raw is {type(raw).__name__}"))
            break
        if raw != data[e - len(raw):e]:
            viol.append((f"{PROP}|slice-mismatch", f"raw {raw[:30].hex()} is not the stream slice ending at "
                                                   f"{e} of {data[:40].hex()}"))
            break
        if e - len(raw) < prev_end:
            viol.append((f"{PROP}|overlap", f"item starts at {e - len(raw)} before previous end {prev_end} "
                                            f"in {data[:40].hex()}"))
            break
        if S.proto_of(raw) == 0:
            viol.append((f"{PROP}|no-preamble", f"raw {raw[:20].hex()} does not begin with a UBX/NMEA/RTCM3 "
                                                f"preamble (stream {data[:40].hex()})"))
            break
        prev_end = e
    return viol, nitems, (prev_end < len(data))


def judge_socket(data, opts, chunks, bufsize, end, close_after=None):
    """The same invariant over a socket transport: positions are not observable
    there, so every raw item must be found in the input at or after the end of the
    previous one (non-overlapping, in order) and begin with a preamble."""
    # the socket may be a subclass with read()/write() of its own, the application may
    # write to it between reads - and a write may fail while received data is pending
    mode = (len(data) + bufsize) % 4 if close_after is None else 0
    cls = S.TLSLikeSocket if mode == 3 else S.ScriptedSocket
    sock = cls(data, chunks, end, write_fails={0: None, 1: BrokenPipeError, 2: ConnectionResetError, 3: None}[mode])
    viol, n = [], 0
    try:
        try:
            with S.deadline():
                rd = S.mk_reader(sock, dict(opts, bufsize=bufsize), _handler_for(data) if opts.get("quitonerror") == 1 else None)
                items, exc, closed = [], None, False
                for _step in range(4 * len(data) + 50):
                    try:
                        raw, parsed = rd.read()
                    except Exception as err:  # noqa
                        exc = err
                        break
                    if raw is None and parsed is None:
                        break
                    items.append((raw, parsed))
                    if mode == 0 and ((close_after is None and len(data) % 3 == 0 and len(items) == 2)
                                      or (close_after is not None and len(items) == close_after)):
                        closed_pos = sock._pos
                        sock.close()  # the application closes its own socket and drains what was received
                        closed = True
                    if len(items) % 3 == 0 and not closed:
                        try:
                            rd.datastream.write(b"\xb5\x62\x0a\x04\x00\x00\x0e\x34")
                        except OSError:
                            pass
        except S.HarnessHang as err:
            return [(f"{PROP}|hang", f"socket transport: {err}")], 0
        if exc is not None:
            return [], 0  # foreign exception: C08's clause
        pos = 0
        for raw, _p in items:
            n += 1
            j = data.find(raw, pos)
            if j < 0:
                where = "overlap" if data.find(raw) >= 0 else "slice-mismatch"
                viol.append((f"{PROP}|{where}", f"socket transport: item {raw[:24].hex()} ({len(raw)} bytes) is not found in "
                                                f"the input after offset {pos} (input {len(data)} bytes)"))
                break
            if S.proto_of(raw) == 0:
                viol.append((f"{PROP}|no-preamble", f"socket transport: raw {raw[:16].hex()}"))
                break
            pos = j + len(raw)
        if not viol and closed:
            # what had been received when the socket was closed is delivered as it would be from a
            # file holding those bytes (a frame only partly received is dropped; whole ones are not)
            try:
                want, _e = S.read_all(io.BytesIO(data[:closed_pos]), dict(opts, quitonerror=0), None,
                                      limit=4 * len(data) + 50)
            except S.HarnessHang:
                want = []
            if len(items) < len(want):
                viol.append((f"{PROP}|abandoned-in-buffer", f"socket closed by the application after {closed_pos} bytes had been "
                                                            f"received: {len(items)} items delivered, {len(want)} complete frames "
                                                            f"were in those bytes"))
        elif not viol and sock._pos < len(data):
            # (None, None) while the peer still had bytes to deliver
            viol.append((f"{PROP}|eof-with-data-left", f"socket transport: end-of-stream reported after {n} items with "
                                                        f"{len(data) - sock._pos} of {len(data)} bytes not yet received"))
    finally:
        sock.close()
    return viol, n


def check(case) -> core.Out:
    if case.get("kind") == "socket":
        data, opts = bytes(case["data"]), dict(case["opts"])
        viol, n = judge_socket(data, opts, case["chunks"], case["bufsize"], case["end"], case.get("close_after"))
        out = core.Out(viol=viol, classes=["socket-transport"] + (["session>64KiB"] if len(data) > 65536 else []),
                       dig=core.digest((data[:64], len(data), case["chunks"][:8], case["bufsize"], case["end"])))
        out.nontrivial = True
        out.sample = {"socket_stream_len": len(data), "items": n, "bufsize": case["bufsize"], "end": case["end"]}
        return out
    data, opts = bytes(case["data"]) if "data" in case else streams.stream_bytes(case["items"]), dict(case["opts"])
    viol, nitems, trunc = judge(data, opts, case.get("bursts"), seekable=bool(case.get("seekable")),
                                grow=case.get("grow"))
    classes = ["garbage", "items=0" if nitems == 0 else ("items=1" if nitems == 1 else "items>=2")]
    if case.get("bursts"):
        classes.append("short-reads")
    if case.get("seekable"):
        classes.append("seekable")
    if case.get("grow"):
        classes.append("growing-source")
    if b"\xd3\x00\x00" in data:
        classes.append("has-d3-00-00")
    if trunc is True:
        classes.append("trailing-bytes-outside-items")
    if trunc == "raised":
        classes.append("raised(C08)")
    out = core.Out(viol=viol, classes=classes, dig=core.digest((data, sorted(opts.items()))))
    out.nontrivial = any(x in data for x in (0xB5, 0x24, 0xD3))
    out.sample = {"stream": data[:48], "len": len(data), "opts": opts, "items": nitems}
    return out


GOPTS = st.fixed_dictionaries({
    "msgmode": st.sampled_from([0, 0, 1, 2, 3]),
    "validate": st.sampled_from([1, 0]),
    "protfilter": st.sampled_from([7, 7, 7, 1, 2, 4, 3, 5, 6, 0]),
    "parsing": st.sampled_from([True, True, False]),
    "quitonerror": st.sampled_from([0, 1]),
    "parsebitfield": st.sampled_from([1, 0]),
})


def run_shard(spec, ctx, acc):
    known = set(ctx["known"])
    if spec["what"] == "atheris":
        run_atheris(spec, ctx, acc)
        return
    if spec["what"] == "socket":
        # the application closes its own socket while whole frames are still in the wrapper's
        # buffer (enumerated: everything arrives in one or two deliveries)
        ack_ = S.codec.ubx_frame(b"\x05", b"\x01", b"\x06\x01")
        txt_ = S.codec.nmea_frame("GNGLL,5327.04319,N,00214.41396,W,223232.00,A,A")
        rt_ = S.codec.rtcm_frame(bytes.fromhex("3ed00003"))
        for j, body in enumerate((ack_ * 12 + txt_ + ack_ * 3, (ack_ + txt_ + rt_) * 6, txt_ * 8 + ack_ * 2)):
            if j % 2 != spec["part"] % 2:
                continue
            for chunks_ in ([len(body)], [len(body) // 2, len(body)]):
                for ca in (1, 2, 3):
                    for qe in (0, 1):
                        case = {"kind": "socket", "data": body, "chunks": chunks_, "bufsize": 4096, "end": "close",
                                "close_after": ca, "opts": {"msgmode": 0, "validate": 1, "parsebitfield": 1, "quitonerror": qe,
                                                            "protfilter": 7, "parsing": True}}
                        o = core.checked(check, case)
                        o.classes = list(o.classes) + ["socket-closed-by-application"]
                        core.handle(acc, o, case, known)

        @st.composite
        def sk(draw):
            long_ = draw(st.integers(0, 1)) == 0
            items = draw(st.one_of(streams.garbage_streams(), streams.clean_streams(1, 5)))
            data = streams.stream_bytes(items)
            if long_:
                corp = streams.corpus()
                # frames that quote another frame in their payload, > 64 KiB in total
                body = []
                k = draw(st.integers(0, 30))
                style = draw(st.sampled_from(["quoting", "alternating", "sentences"]))
                size, goal = 0, draw(st.sampled_from([70000, 70000, 140000]))
                while size < goal:
                    if style == "quoting":
                        # each frame quotes two or three complete sentences, so that any
                        # re-served tail of a frame is likely to hold a whole one
                        inner = b"".join(corp["nmea"][(k + j) % len(corp["nmea"])] for j in range(3))
                        body.append(S.codec.ubx_frame(b"\x04", b"\x02", b"e%d " % k + inner))
                    else:
                        # what the reader is busy with when the 64 KiB mark passes varies
                        src = "ubx" if style == "alternating" and k % 2 else "nmea"
                        body.append(corp[src][k % len(corp[src])])
                    size += len(body[-1])
                    k += 1
                data = b"".join(body) + data
            step = draw(st.sampled_from([1, 7, 100, 1000, 4096, 65536]))
            chunks = [draw(st.integers(1, step))] + [step] * min(len(data) // step + 2, 200)
            return {"kind": "socket", "data": data, "opts": draw(GOPTS), "chunks": chunks,
                    "bufsize": draw(st.sampled_from([1, 16, 4096, 65536])), "end": draw(st.sampled_from(["close", "timeout", "reset", "aborted"]))}

        core.hyp_search(acc, sk(), check, seed=core.derive(ctx["seed"], PROP, "sock", spec["part"]),
                        max_examples=40 if ctx["tier"] == "quick" else 600, known=known, rounds=2, shrink=False)
        return
    if spec["what"] == "garbage":
        # a third of the streams are delivered in bursts (reads may come back short,
        # like a serial port with a timeout); the rest as one block
        bursts = st.one_of(st.none(), st.none(), st.lists(st.integers(1, 40), min_size=1, max_size=30))
        grow = st.one_of(st.none(), st.none(), st.lists(
            st.one_of(streams.clean_streams(1, 3, bursts=False), streams.garbage_streams(3)).map(streams.stream_bytes),
            min_size=1, max_size=2))
        strat = st.tuples(st.one_of(streams.garbage_streams(), streams.clean_streams(1, 5)), GOPTS, bursts,
                          st.booleans(), grow).map(
            lambda t: {"kind": "garbage", "data": streams.stream_bytes(t[0]), "opts": t[1], "bursts": t[2],
                       "seekable": t[3] and not t[2], "grow": t[4]})
        core.hyp_search(acc, strat, check, seed=core.derive(ctx["seed"], PROP, "g", spec["part"]),
                        max_examples=300 if ctx["tier"] == "quick" else 8000, known=known, rounds=3)
        return
    alpha = bytes(spec["alpha"])
    prefix = bytes(spec["prefix"])
    found = set()
    counts = {"tiny": 0, "items=0": 0, "items=1": 0, "items>=2": 0, "has-d3-00-00": 0,
              "trailing-bytes-outside-items": 0}
    nt = 0
    lens = list(range(2, spec["maxlen"] + 1))
    extra = [b""] + [bytes([x]) for x in alpha] if spec["short"] else []
    def gen():
        for x in extra:
            yield x
        for ln in lens:
            for tail in itertools.product(alpha, repeat=ln - 2):
                yield prefix + bytes(tail)
    for data in gen():
        for opts in TINY_OPTS:
            viol, nitems, trunc = judge(data, opts)
            counts["tiny"] += 1
            counts["items=0" if nitems == 0 else ("items=1" if nitems == 1 else "items>=2")] += 1
            if trunc is True:
                counts["trailing-bytes-outside-items"] += 1
            if b"\xd3\x00\x00" in data:
                counts["has-d3-00-00"] += 1
            if 0xB5 in data or 0x24 in data or 0xD3 in data:
                nt += 1
            for k, d in viol:
                if k in known:
                    acc.known_hits[k] += 1
                elif k not in found:
                    found.add(k)
                    acc.violations.append({"key": k, "case": core.jenc({"kind": "tiny", "data": data, "opts": opts}),
                                           "detail": d})
    acc.evaluations += counts["tiny"]
    acc.nontrivial_extra += nt
    acc.classes.update(counts)
    if len(acc.samples) < 1:
        acc.samples.append(core.jenc({"tiny_prefix": prefix, "max_len": spec["maxlen"], "alphabet": alpha,
                                      "streams_x_configs": counts["tiny"]}))


def run_atheris(spec, ctx, acc):
    """Coverage-guided campaign (thorough tier): the oracle of this module runs
    inside the fuzz target; each new violation key is saved with its input."""
    from vp.fuzz import driver

    try:
        core.ensure_deps(("atheris",))
    except core.HarnessError as err:
        acc.errors.append(f"atheris unavailable: {err}")
        return
    runs = int(os.environ.get("VP_FUZZ_RUNS", "100000"))
    stats, viols, err, ncorpus = driver.run_campaign(
        PROP, f"shard{spec['part']}", core.derive(ctx["seed"], PROP, "atheris", spec["part"]), runs,
        spec["corpus"], set(ctx["known"]))
    if err:
        acc.errors.append(err)
    n = stats.get("runs", 0)
    acc.evaluations += n
    acc.nontrivial_extra += stats.get("nontrivial", 0)  # coverage-guided inputs; duplicates possible
    acc.classes["atheris-runs"] += n
    acc.classes[f"atheris-corpus={spec['corpus']}"] += n
    acc.extra.setdefault("atheris", {})[f"shard{spec['part']}"] = dict(stats, corpus=spec["corpus"], final_corpus=ncorpus)
    if stats.get("known_hits"):
        acc.known_hits["(atheris) listed findings"] += stats["known_hits"]
    for v in viols:
        if not any(x["key"] == v["key"] for x in acc.violations):
            acc.violations.append({"key": v["key"], "case": v["case"], "detail": v["detail"]})
