"""C09 - a stream cut at any byte yields a prefix of the uncut stream's output.

Domain   streams S (clean frame sequences and garbage) x *every* cut position
         0 <= k <= len(S) x quitonerror in {IGNORE, LOG}.
Oracle   fault enumeration over crash points: items(S[:k]) is a prefix of
         items(S) (raw equal, parsed equivalent) and reading ends without
         raising; for clean S additionally the number of items delivered from
         S[:k] equals the number of accepted frames lying wholly before the cut
         (so every complete frame is delivered and no partial frame is).
"""

import io

from hypothesis import strategies as st

from vp import core
from vp.gen import streams
from vp.props import streamlib as S

PROP = "C09"
LEVEL = "fault_enumeration"
TECHNIQUE = ("fault enumeration: every cut position of Hypothesis-generated streams; oracle = "
             "prefix relation against the uncut run plus a constructive count for clean streams")
RULE = ("case = (stream, options) expanded to every cut position k; one evaluation per (stream, k); "
        "non-trivial = k falls strictly inside a frame (clean streams) or inside the stream "
        "(garbage); cuts of one stream are distinct by construction, streams by digest")
ASSUMPTIONS = [
    "the uncut run of the same reader configuration is the reference for the prefix relation",
    "streams on which a dependency parser raises a non-protocol exception are left to C08",
]


def floors(tier):
    return {"cut:ubx-header": 50, "cut:ubx-length": 50, "cut:ubx-payload": 50, "cut:ubx-checksum": 50,
            "cut:nmea-body": 50, "cut:nmea-crlf": 20, "cut:rtcm-header": 50, "cut:rtcm-payload": 50,
            "cut:rtcm-crc": 50, "cut:boundary": 50, "garbage-cuts": 2000, "resumed-after-cut": 300, "socket-cut:reset": 500, "socket-cut:close": 500}


def plan(tier, seed):
    return [{"part": i} for i in range(16)]


def cut_class(items, k):
    """Where does cut k fall in a clean stream?"""
    off = 0
    for it in items:
        n = len(it["b"])
        if k == off:
            return "boundary"
        if off < k < off + n:
            r = k - off
            if it["p"] == "ubx":
                return "ubx-header" if r < 2 else "ubx-length" if r < 6 else (
                    "ubx-checksum" if r >= n - 2 else "ubx-payload")
            if it["p"] == "nmea":
                return "nmea-crlf" if r == n - 1 else "nmea-body"
            if it["p"] == "rtcm":
                return "rtcm-header" if r < 3 else ("rtcm-crc" if r >= n - 3 else "rtcm-payload")
            return "noise"
        off += n
    return "boundary"


def run_once(data, opts):
    errs = []
    st_ = io.BytesIO(data)
    return S.read_all(st_, opts, handler=S.handler_returning(len(data), errs) if opts["quitonerror"] == 1 else None,
                      limit=4 * len(data) + 50)


def check(case) -> core.Out:
    import logging

    items, opts, clean = case["items"], dict(case["opts"]), case["clean"]
    data = streams.stream_bytes(items)
    out = core.Out(classes=[], dig=core.digest((data, sorted(opts.items()))))
    core.log_off()
    try:
        try:
            full, exc = run_once(data, opts)
        except S.HarnessHang:
            out.classes = ["skipped:hang(C08)"]
            return out
        if exc is not None:
            out.classes = ["skipped:uncut-run-raises(C08)"]
            return out
        ends = []
        if clean:
            # accepted frames and the offsets at which they end
            off = 0
            for it in items:
                off += len(it["b"])
                if it["p"] != "noise" and (S.proto_of(bytes(it["b"])) & opts.get("protfilter", 7)):
                    if not opts.get("parsing", True):
                        ends.append(off)  # nothing is parsed: every framed message is delivered
                        continue
                    v, _r = S.direct_parse(bytes(it["b"]), opts)
                    if v == "foreign":
                        out.classes = ["skipped:dependency-foreign-exception"]
                        return out
                    if v == "ok":
                        ends.append(off)
        counts = {}
        viol, seen = [], set()
        nt = 0
        cuts = case.get("cuts") or range(0, len(data) + 1)
        ncuts = 0
        for k in cuts:
            ncuts += 1
            cls = cut_class(items, k) if clean else "garbage"
            lab = f"cut:{cls}" if clean else "garbage-cuts"
            counts[lab] = counts.get(lab, 0) + 1
            if (clean and cls not in ("boundary", "noise")) or (not clean and 0 < k < len(data)):
                nt += 1
            try:
                got, exc = run_once(data[:k], opts)
            except S.HarnessHang:
                v = (f"{PROP}|hang|{cls}", f"cut {k} of {data[:40].hex()}: reader did not terminate")
                got, exc = None, None
            else:
                v = None
                if exc is not None:
                    v = (f"{PROP}|raises:{type(exc).__name__}|{cls}",
                         f"cut {k} ({cls}) of {data[:40].hex()}: {exc!r} ({S.opts_label(opts)})")
                elif not (len(got) <= len(full) and S.same_items(got, full[:len(got)])):
                    v = (f"{PROP}|not-prefix|{cls}",
                         f"cut {k} ({cls}) of stream {data[:50].hex()} yields {[g[0][:12].hex() for g in got][-3:]} "
                         f"which is not a prefix of the uncut output ({S.opts_label(opts)})")
                elif clean:
                    want = sum(1 for e in ends if e <= k)
                    if len(got) != want:
                        v = (f"{PROP}|count|{cls}",
                             f"cut {k} ({cls}) of stream {data[:50].hex()}: {len(got)} items delivered, "
                             f"{want} accepted frames lie wholly before the cut")
            if v is None and k % 5 == 2 and got is not None:
                # the same cut seen through a socket: the peer closes, times out, resets
                # or aborts the connection after S[:k] (however the cut is signalled, the
                # output is that of the cut stream, and nothing is raised)
                endk = ("close", "timeout", "reset", "aborted", "oserror")[(k // 5) % 5]
                counts[f"socket-cut:{endk}"] = counts.get(f"socket-cut:{endk}", 0) + 1
                so = S.ScriptedSocket(data[:k], [53] * (k // 53 + 2), endk)
                try:
                    g2, e2 = S.read_all(so, dict(opts, bufsize=64), S.handler_returning(k) if opts["quitonerror"] == 1 else None,
                                        limit=4 * len(data) + 50)
                    if e2 is not None:
                        v = (f"{PROP}|raises:{type(e2).__name__}|socket:{endk}",
                             f"stream cut at {k} by a socket peer ({endk}): {e2!r} ({S.opts_label(opts)})")
                    elif not S.same_items(g2, got):
                        v = (f"{PROP}|socket-cut-differs|{endk}", f"cut {k} over a socket ({endk}) yields {len(g2)} items, "
                                                                  f"the cut file {len(got)}")
                except S.HarnessHang:
                    v = (f"{PROP}|hang|socket:{endk}", f"cut {k} over a socket: reader did not terminate")
                finally:
                    so.close()
            if v is None and clean and cls == "boundary" and 0 < k < len(data) and counts[lab] <= 6:
                # the cut is an interruption: iteration stops, the rest of the stream
                # arrives, and the same reader object is iterated again
                counts["resumed-after-cut"] = counts.get("resumed-after-cut", 0) + 1
                try:
                    ts = S.TrackingStream(data[:k])
                    rd = S.mk_reader(ts, opts, S.handler_returning(k) if opts["quitonerror"] == 1 else None)
                    both = [(r, p) for r, p in rd]
                    ts.append(data[k:])
                    both += [(r, p) for r, p in rd]
                    if not S.same_items(both, full):
                        v = (f"{PROP}|resume-differs|{cls}",
                             f"stream {data[:50].hex()} interrupted at the frame boundary {k} and iterated again after "
                             f"the rest arrived: {len(both)} items, uninterrupted {len(full)} ({S.opts_label(opts)})")
                except Exception as err:  # noqa
                    v = (f"{PROP}|resume-raises:{type(err).__name__}|{cls}", f"cut {k}: {err!r}")
            if v and v[0] not in seen:
                seen.add(v[0])
                viol.append(v)
        out.viol = viol
        out.counts = counts
        out.n = ncuts
        out.nt = nt
        out.nontrivial = True
        out.sample = {"stream": data[:48], "len": len(data), "clean": clean, "opts": opts,
                      "frames": [f"{i['p']}:{i['tag']}" for i in items][:8]}
        return out
    finally:
        core.log_on()


OPTS = st.fixed_dictionaries({
    "msgmode": st.sampled_from([0, 0, 0, 3, 1]),
    "validate": st.sampled_from([1, 1, 0]),
    "parsebitfield": st.just(1),
    "quitonerror": st.sampled_from([0, 1]),
    "protfilter": st.sampled_from([7, 7, 7, 2, 5]),
})


def small(items, cap):
    return len(streams.stream_bytes(items)) <= cap


def run_shard(spec, ctx, acc):
    known = set(ctx["known"])
    quick = ctx["tier"] == "quick"
    cap = 320 if quick else 2500
    clean = st.tuples(streams.clean_streams(1, 4 if quick else 8).filter(lambda it: small(it, cap)), OPTS).map(
        lambda t: {"kind": "cuts", "items": t[0], "opts": t[1], "clean": True})
    garb = st.tuples(streams.garbage_streams(6 if quick else 12).filter(lambda it: small(it, cap)), OPTS).map(
        lambda t: {"kind": "cuts", "items": t[0], "opts": t[1], "clean": False})
    import hashlib

    @st.composite
    def blockcase(draw):
        n = draw(st.sampled_from([4094, 5000, 8190, 9000, 12286]))
        which = draw(st.sampled_from(["ubx", "ubx", "nmea", "rtcm"]))
        if which == "nmea":
            # a long (valid) sentence: 4 KiB and more of text before the line end
            big = streams.item("nmea", S.codec.nmea_frame("GNTXT,01,01,02," + "LONG TEXT " * (n // 10)), "huge")
        elif which == "rtcm":
            big = streams.item("rtcm", S.codec.rtcm_frame(bytes([0xFF, 0xF0]) + hashlib.shake_256(bytes([n & 0xFF])).digest(1021)), "big")
        else:
            big = streams.item("ubx", S.codec.ubx_frame(b"\x0c", b"\x10", hashlib.shake_256(bytes([n & 0xFF])).digest(n)), "len>=256")
        pre = draw(streams.ubx_items())
        post = draw(streams.ubx_items())
        items = [pre, big, post]
        start = len(pre["b"])
        cuts = sorted({start + 6 + m * 4096 + d for m in range(0, 4) for d in (-2, -1, 0, 1, 2)
                       if 0 <= start + 6 + m * 4096 + d <= start + len(big["b"])} |
                      {draw(st.integers(0, start + len(big["b"]) + len(post["b"]))) for _ in range(12)} |
                      {start + len(big["b"]) - 1, start + len(big["b"]), start + len(big["b"]) + 1})
        o = draw(OPTS)
        o = dict(o, validate=draw(st.sampled_from([1, 0, 0])), parsing=draw(st.sampled_from([True, False])))
        return {"kind": "cuts", "items": items, "opts": o, "clean": True, "cuts": cuts}

    core.hyp_search(acc, blockcase(), check, seed=core.derive(ctx["seed"], PROP, "b", spec["part"]),
                    max_examples=6 if quick else 80, known=known, rounds=2, shrink=False)
    core.hyp_search(acc, clean, check, seed=core.derive(ctx["seed"], PROP, "c", spec["part"]),
                    max_examples=45 if quick else 600, known=known, rounds=2, shrink=not quick)
    core.hyp_search(acc, garb, check, seed=core.derive(ctx["seed"], PROP, "g", spec["part"]),
                    max_examples=45 if quick else 600, known=known, rounds=2, shrink=not quick)
