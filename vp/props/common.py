"""Helpers shared by the property modules (all go through pyubx2's public API)."""

import enum
import functools

from vp.ref import catalog, codec
from vp.ref import grammar as G
from vp.ref import variants as V

MODES = {0: "GET", 1: "SET", 2: "POLL", 3: "SETPOLL"}


@functools.lru_cache(maxsize=1)
def cat():
    targets, unreachable, unmodelled = catalog.build()
    index = {(t.mode, t.clsid, t.defname): t for t in targets}
    return targets, unreachable, unmodelled, index


def find_target(mode, clsid, defname):
    return cat()[3].get((mode, bytes(clsid), defname))


def ubx_errors():
    import pyubx2

    return (pyubx2.UBXMessageError, pyubx2.UBXParseError, pyubx2.UBXStreamError, pyubx2.UBXTypeError)


class ModeEnum(enum.IntEnum):
    OUTPUT = 0
    INPUT = 1
    POLLING = 2
    EITHER = 3


def uparse(frame, msgmode=0, validate=1, parsebitfield=1):
    """UBXReader.parse with the documented options given either by keyword, or -
    for a quarter of the frames, chosen by their last bytes - positionally in
    the documented order (message, msgmode, validate, parsebitfield)."""
    import pyubx2

    if len(frame) >= 2 and isinstance(msgmode, int) and 0 <= msgmode <= 3:
        # the mode as an equal value of another integer type (an IntEnum of the
        # application's, a bool), for an eighth of the frames each
        if frame[-1] % 8 == 3:
            msgmode = ModeEnum(msgmode)
        elif frame[-1] % 8 == 5 and msgmode in (0, 1):
            msgmode = bool(msgmode)
    fn = pyubx2.UBXReader.parse
    if len(frame) >= 2 and isinstance(validate, int):
        if frame[-2] % 8 == 1:
            # validate is a word of flags (the reader hands the same word to the NMEA
            # parser, which knows a second flag): other bits do not change bit 0
            validate = validate | 2
        elif frame[-2] % 8 == 2:
            # the static method looked up on a reader *object* built with other settings
            import io

            fn = pyubx2.UBXReader(io.BytesIO(b""), validate=0 if validate & 1 else 1, msgmode=(msgmode + 1) % 3 if
                                  isinstance(msgmode, int) and msgmode < 3 else 0, parsebitfield=not parsebitfield).parse
    if len(frame) >= 2 and (frame[-1] + frame[-2]) % 4 == 0:
        return fn(frame, msgmode, validate, parsebitfield)
    return fn(frame, msgmode=msgmode, validate=validate, parsebitfield=parsebitfield)


def public_attrs(msg):
    """Ordered public attributes of a parsed/constructed message."""
    return [(k, v) for k, v in vars(msg).items() if not k.startswith("_")]


def scribble(msg):
    """Edit in place every mutable value the library handed out with a message
    (array attributes are Python lists).  The caller owns them: doing so must not
    change what the library returns next.  -> number of values edited."""
    n = 0
    for _k, v in list(vars(msg).items()):
        if isinstance(v, list) and v:
            v.reverse()
            v[0] = 201
            v.append(77)
            del v[1:3]
            n += 1
        elif isinstance(v, bytearray) and v:
            v[0] ^= 0xFF
            n += 1
    return n


def base_name(attr):
    """Strip the _NN group suffixes (digits only) from an attribute name."""
    parts = attr.split("_")
    while len(parts) > 1 and parts[-1].isdigit():
        parts.pop()
    return "_".join(parts)


def nodes_stats(nodes):
    """Flags describing an instance, for the class histogram."""
    st = {"nonzero": False, "neg": False, "allones": False, "maxcount": 0, "groups": 0,
          "nested": False, "scaled": False, "leaves": 0, "count0": False}

    def walk(ns, depth):
        for nd in ns:
            if nd[0] == "f":
                st["leaves"] += 1
                raw, t = nd[4], nd[2]
                if nd[3] is not None:
                    st["scaled"] = True
                if isinstance(raw, int):
                    if raw != 0:
                        st["nonzero"] = True
                    if raw < 0:
                        st["neg"] = True
                    if t != "CH" and t[0] in "UEL" and raw == codec.int_range(t)[1]:
                        st["allones"] = True
                elif raw and any(raw):
                    st["nonzero"] = True
            elif nd[0] == "b":
                st["leaves"] += len(nd[3])
                if any(f[2] for f in nd[3]) or nd[4]:
                    st["nonzero"] = True
            else:
                st["groups"] += 1
                if depth >= 1:
                    st["nested"] = True
                st["maxcount"] = max(st["maxcount"], len(nd[2]))
                if len(nd[2]) == 0:
                    st["count0"] = True
                for it in nd[2]:
                    walk(it, depth + 1)

    walk(nodes, 0)
    return st


def compare_attrs(actual, expected):
    """actual: [(name, value)] from the library; expected: [(name, spec)].
    Returns list of (kind, basename, detail)."""
    probs = []
    an = [a for a, _ in actual]
    en = [e for e, _ in expected]
    if an != en:
        aset, eset = set(an), set(en)
        for n in en:
            if n not in aset:
                probs.append(("missing", base_name(n), f"attribute {n} not exposed"))
                break
        for n in an:
            if n not in eset:
                probs.append(("extra", base_name(n), f"unexpected attribute {n}"))
                break
        if not probs:
            if len(an) != len(set(an)) or len(an) != len(en):
                probs.append(("count", "", f"{len(an)} attributes, expected {len(en)}"))
            else:
                i = next(i for i in range(len(an)) if an[i] != en[i])
                probs.append(("order", base_name(en[i]), f"position {i}: {an[i]} where {en[i]} expected"))
        return probs
    for (n, val), (_, spec) in zip(actual, expected):
        if not G.value_matches(val, spec):
            probs.append(("value", base_name(n), f"{n}={val!r}, prescribed {G.describe(spec)}"))
            break
    return probs


def mode_label(t):
    return V.MODE_NAMES[t.mode]


def split_round_robin(items, n):
    out = [[] for _ in range(n)]
    for i, x in enumerate(items):
        out[i % n].append(x)
    return [o for o in out if o]
