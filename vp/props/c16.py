"""C16 - every declared message type is usable and its fields have distinct names.

Domain   every entry of UBX_PAYLOADS_GET/SET/POLL, UBX_MSGIDS, VARIANTS and
         UBX_CONFIG_DATABASE as found in the working tree (finite; enumerated
         completely).
Oracle   (i) grammar audit by the reference validator (vp.ref.grammar.audit):
         valid types, scaled = [type, number], flags fit their bitfield, counted
         groups name an earlier integer attribute/flag, at most one
         variable-by-size group and only last, names unique per nesting depth in
         both bitfield views, no collision with UBXMessage's own attributes;
         (ii) table cross-checks (IDs, classes, variant keys, config keys);
         (iii) behaviour: a nominal instance (every group repeated once) of
         every reachable (mode, definition) is built through the library by
         payload and - where the rules allow - by keywords, serialised, parsed,
         and must expose exactly the attributes the grammar predicts.
"""

from vp import core
from vp.gen import layout
from vp.props import common as C
from vp.ref import catalog, codec
from vp.ref import grammar as G
from vp.ref import variants as V

PROP = "C16"
LEVEL = "exploration"
EXHAUSTIVE = True
TECHNIQUE = ("exhaustive enumeration of every table entry; grammar audit by an independent "
             "validator plus build/parse of a generated nominal instance per (mode, definition)")
RULE = ("case = one table entry: a (mode, definition) of the payload tables, a UBX_MSGIDS key, a "
        "VARIANTS key or a configuration-database key - all enumerated; non-trivial = definition "
        "with at least one group or bitfield, or any MSGIDS/VARIANTS/config key; distinct by "
        "construction (table keys)")
ASSUMPTIONS = [
    "the grammar is the one documented in README 'Extensibility' plus the documented _HP prefix",
    "two reserved* bit flags sharing a name are not a collision (never exposed, never reported); "
    "a reserved flag sharing its name with an attribute is",
    "table entries that no class/ID and mode can reach are listed in evidence, audited for "
    "grammar, but cannot be built/parsed",
]


def floors(tier):
    return {"def": 450, "nominal-payload": 400, "nominal-kw": 200, "msgid": 300, "cfgkey": 1000,
            "variant-key": 10, "source-module": 6, "one-name-one-field": 200}


def plan(tier, seed):
    return [{"what": "defs", "part": i, "of": 6} for i in range(6)] + [{"what": "tables"},
                                                                         {"what": "race", "suites": ["mixed"]}]


def nominal_nodes(t, extra=None):
    counts = {n: 1 for n in G.count_names(t.defn)}
    for k, v in t.defn.items():
        if G.is_group_def(v) and v[0] == "None":
            counts[("None", k)] = 1
    forced = {}
    ff = catalog.forced_for(t) or {}
    for k, v in ff.items():
        if isinstance(v, tuple):  # ("ne", x): pick the smallest value that differs
            forced[k] = 1 if v[1] == 0 else 0
        else:
            forced[k] = v
    for k, v in t.defn.items():
        if v == "CH":
            forced[k] = b"nominal"
    forced.update(extra or {})
    return layout.zero_instance(t.defn, t.mode, t.clsid, forced=forced, counts=counts)


def kw_constructible(t):
    """By rule: no variable-by-size group, no CH text, not a payload-only
    variant, not the CFG-VALGET/VALSET key-value messages."""
    if t.is_cfgval() or catalog.has_none_group(t.defn) or catalog.has_ch(t.defn):
        return False
    if t.kwrule is not None and t.kwrule[0] == "payload_only":
        return False
    return True


def nominal_kwargs(t, nodes):
    """Keywords that select this definition and size its counted groups."""
    kw = {}
    r = t.kwrule
    if r is not None:
        if r[0] == "kw_eq":
            kw[r[1]] = r[2]
        elif r[0] == "kw_ne":
            kw[r[1]] = 1 if r[2] == 0 else 0
        elif r[0] == "kw_present":
            kw[r[1]] = 0
    for n in G.count_names(t.defn):
        kw[n] = 1
    if not kw:
        # at least one keyword is needed for the keyword route: the first leaf
        for name, spec in G.expect(nodes, 1):
            if spec[0] == "val":
                kw[name] = spec[2]
                break
    return kw


TABLE_MODULES = ["ubxtypes_get.py", "ubxtypes_set.py", "ubxtypes_poll.py", "ubxtypes_core.py",
                 "ubxtypes_configdb.py", "ubxtypes_decodes.py", "ubxvariants.py"]


def source_duplicates(path):
    """Entries of the table modules *as written*: a key written twice in one dict
    display, or a dict merged with update() / ** over a key that is already
    there, silently replaces an entry - after import the table looks well formed.
    -> [(where, key)]"""
    import ast

    with open(path, encoding="utf-8") as fh:
        tree = ast.parse(fh.read())
    names = {}  # variable -> set of literal keys (module level)
    found = []

    def keyrepr(k):
        if isinstance(k, ast.Constant):
            return repr(k.value)
        if isinstance(k, ast.Name):
            return k.id
        return None

    def dict_keys(node, where):
        keys = []
        for k, v in zip(node.keys, node.values):
            if k is None:  # {**other}
                src = v.id if isinstance(v, ast.Name) else None
                if src is None:
                    # {**helper(...)}: evaluate the expression in the module's own namespace
                    try:
                        import importlib
                        import os

                        mod = importlib.import_module("pyubx2." + os.path.basename(path)[:-3])
                        val_ = eval(compile(ast.Expression(v), path, "eval"), dict(vars(mod)))  # noqa: S307
                        spl = [repr(x) for x in val_] if isinstance(val_, dict) else []
                    except Exception:  # noqa - not evaluable: nothing to say about it
                        spl = []
                    for kk in spl:
                        if kk in keys:
                            found.append((where + " (** of a computed dict)", kk))
                        keys.append(kk)
                    continue
                for kk in sorted(names.get(src, ())):
                    if kk in keys:
                        found.append((where + f" (**{src})", kk))
                    keys.append(kk)
                continue
            kr = keyrepr(k)
            if kr is None:
                continue
            if kr in keys:
                found.append((where, kr))
            keys.append(kr)
        return keys

    class V(ast.NodeVisitor):
        def __init__(self):
            self.path = []

        def visit_Dict(self, node):
            dict_keys(node, f"line {node.lineno}")
            self.generic_visit(node)

    for node in tree.body:
        tgt = None
        if isinstance(node, ast.Assign) and len(node.targets) == 1 and isinstance(node.targets[0], ast.Name):
            tgt, val = node.targets[0].id, node.value
        elif isinstance(node, ast.AnnAssign) and isinstance(node.target, ast.Name) and node.value is not None:
            tgt, val = node.target.id, node.value
        if tgt is not None and isinstance(val, ast.Dict):
            names[tgt] = set(k for k in (keyrepr(x) for x in val.keys if x is not None) if k)
        if (isinstance(node, ast.Expr) and isinstance(node.value, ast.Call)
                and isinstance(node.value.func, ast.Attribute) and node.value.func.attr == "update"
                and isinstance(node.value.func.value, ast.Name) and node.value.args):
            dst = node.value.func.value.id
            arg = node.value.args[0]
            add = set()
            if isinstance(arg, ast.Name):
                add = names.get(arg.id, set())
            elif isinstance(arg, ast.Dict):
                add = set(k for k in (keyrepr(x) for x in arg.keys if x is not None) if k)
            for kk in sorted(add & names.get(dst, set())):
                found.append((f"line {node.lineno} ({dst}.update)", kk))
            names.setdefault(dst, set()).update(add)
    V().visit(tree)
    out = []
    for f in found:
        if f not in out:
            out.append(f)
    return out


def check(case) -> core.Out:
    if isinstance(case, dict) and case.get("kind") == "race":
        from vp.props import racing

        return racing.check_race(PROP, case)
    import pyubx2

    k = case["kind"]
    out = core.Out(classes=[k], dig=None)
    if k == "source":
        import os

        path = os.path.join(os.path.dirname(pyubx2.__file__), case["module"])
        out.classes = ["source-module"]
        out.nontrivial = True
        out.sample = {"module": case["module"]}
        if not os.path.exists(path):
            out.classes = ["skipped:module-gone"]
            return out
        for where, key in source_duplicates(path):
            out.viol.append((f"{PROP}|SOURCE|{case['module']}|duplicate-entry:{key.strip(chr(39))}",
                             f"{case['module']} {where}: key {key} is written twice; the later entry silently "
                             f"replaces the earlier one"))
        return out
    if k == "def":
        mode, defname = case["mode"], case["defname"]
        tab = catalog.tables()[mode]
        key = f"{PROP}|{C.MODES[mode]}|{defname}|"
        out.classes = ["def"]
        if defname not in tab:
            out.classes = ["skipped:definition-gone"]
            return out
        defn = tab[defname]
        forb = set(dir(pyubx2.UBXMessage))
        for code, msg in G.audit(defn, forb):
            out.viol.append((key + f"audit:{code}", msg))
        out.nontrivial = any(isinstance(v, tuple) for v in defn.values()) if isinstance(defn, dict) else True
        out.sample = {"mode": C.MODES[mode], "definition": defname, "fields": len(defn)}
        return out
    if k == "nominal":
        mode, clsid, defname, route = case["mode"], bytes(case["clsid"]), case["defname"], case["route"]
        t = C.find_target(mode, clsid, defname)
        key = f"{PROP}|{C.MODES[mode]}|{defname}|nominal-{route}:"
        out.classes = [f"nominal-{route}"]
        if t is None or G.audit_fatal(t.defn):
            out.classes = ["skipped:not-interpretable"]
            return out
        nodes = nominal_nodes(t)
        if route == "kw":
            # the discriminating keywords are part of the nominal instance
            disc = {k: v for k, v in nominal_kwargs(t, nodes).items() if k not in G.count_names(t.defn)}
            nodes = nominal_nodes(t, extra={k: v for k, v in disc.items()
                                            if isinstance(v, int) and G.leaf_lookup(nodes, k) is not None})
        payload = G.encode(nodes)
        if not t.selects(payload):
            out.classes = ["skipped:nominal-does-not-select"]
            return out
        out.nontrivial = True
        out.sample = {"mode": C.MODES[mode], "definition": defname, "route": route, "payload": payload[:32]}
        try:
            if route == "payload":
                if payload:
                    m = pyubx2.UBXMessage(clsid[0:1], clsid[1:2], mode, payload=payload)
                else:
                    m = pyubx2.UBXMessage(clsid[0:1], clsid[1:2], mode)
            else:
                m = pyubx2.UBXMessage(clsid[0:1], clsid[1:2], mode, **nominal_kwargs(t, nodes))
            ser = m.serialize()
        except Exception as err:  # noqa
            out.viol.append((key + f"build-raises:{type(err).__name__}", f"{err!r}"[:300]))
            return out
        if ser != codec.ubx_frame(clsid[0:1], clsid[1:2], payload):
            out.viol.append((key + "bytes", f"built {ser.hex()[:80]}, nominal payload {payload.hex()[:64]}"))
            return out
        if route == "payload" and payload:
            # the same payload as a bytearray, the mode as an IntEnum member
            try:
                alt = pyubx2.UBXMessage(clsid[0:1], clsid[1:2], C.ModeEnum(mode), payload=bytearray(payload)).serialize()
                if alt != ser:
                    out.viol.append((key + "bytearray-payload:bytes", f"built {alt.hex()[:80]} from the bytearray"))
            except Exception as err:  # noqa
                out.viol.append((key + f"bytearray-payload:build-raises:{type(err).__name__}", f"{err!r}"[:300]))
        if route == "kw" and C.scribble(m):
            # the nominal instance must be buildable again after its owner edited the
            # (mutable) array values of the first one
            try:
                m2 = pyubx2.UBXMessage(clsid[0:1], clsid[1:2], mode, **nominal_kwargs(t, nodes))
                if m2.serialize() != ser:
                    out.viol.append((key + "shared-nominal-value", "a second nominal instance differs after the first "
                                                                   "one's array attribute was edited by its owner"))
            except Exception as err:  # noqa
                out.viol.append((key + f"shared-nominal-value:raises:{type(err).__name__}", repr(err)[:200]))
        for bf in (1,):  # default view; the raw-bitfield view is C02's domain
            try:
                p = pyubx2.UBXReader.parse(ser, msgmode=mode, parsebitfield=bf)
            except Exception as err:  # noqa
                out.viol.append((key + f"parse-raises:{type(err).__name__}|bf={bf}", f"{err!r}"[:300]))
                continue
            got = [n for n, _ in C.public_attrs(p)]
            want = [n for n, _ in G.expect(nodes, bf)]
            if t.is_cfgval():
                continue  # key/value tail: decided by C14
            if payload and got != want:
                out.viol.append((key + f"attributes|bf={bf}",
                                 f"exposed {len(got)} attributes, grammar predicts {len(want)}: "
                                 f"{sorted(set(got) ^ set(want))[:6]}"))
            if len(got) != len(set(got)):
                out.viol.append((key + "duplicate-exposed", "two fields under one attribute name"))
        return out
    if k == "onename":
        # one keyword feeds one field: building the nominal instance with a single
        # extra keyword changes no other attribute of the parsed result
        mode, clsid, defname = case["mode"], bytes(case["clsid"]), case["defname"]
        t = C.find_target(mode, clsid, defname)
        out.classes = ["one-name-one-field"]
        if t is None or G.audit_fatal(t.defn):
            out.classes = ["skipped:not-interpretable"]
            return out
        nodes = nominal_nodes(t)
        disc = {k: v for k, v in nominal_kwargs(t, nodes).items() if k not in G.count_names(t.defn)}
        extras = {k: v for k, v in disc.items() if isinstance(v, int) and G.leaf_lookup(nodes, k) is not None}
        nodes = nominal_nodes(t, extra=extras)
        names0 = [n for n, _ in G.expect(nodes, 1)]
        base_kw = nominal_kwargs(t, nodes)
        try:
            m0 = pyubx2.UBXMessage(clsid[0:1], clsid[1:2], mode, **base_kw)
            a0 = dict(C.public_attrs(pyubx2.UBXReader.parse(m0.serialize(), msgmode=mode)))
        except Exception:  # noqa - reported by the nominal route
            out.classes = ["skipped:nominal-not-buildable"]
            return out
        skip = set(G.count_names(t.defn)) | set(base_kw) | set(catalog.forced_for(t) or {})
        tried = 0
        for name, spec in G.expect(nodes, 1):
            if name in skip or C.base_name(name) in skip or name.startswith("_") or spec[0] == "sum":
                continue
            typ = spec[1]
            if spec[0] == "scaled":
                value = spec[3] * 1
            elif typ == "U" or (typ != "CH" and typ[0] in codec.INT_LETTERS):
                value = 1
            elif typ == "CH":
                continue
            elif typ[0] == "R":
                value = 1.0
            elif typ[0] in "XC":
                value = b"\x01" + bytes(codec.tsize(typ) - 1)
            else:
                value = [1] + [0] * (codec.tsize(typ) - 1)
            if name in a0 and repr(a0[name]) == repr(value):
                continue
            if value == 1 and "_" not in name:
                # by the reference model this attribute sizes a group (e.g. the ESF-MEAS
                # calibTtagValid flag): other attributes legitimately appear with it
                try:
                    if [n for n, _ in G.expect(nominal_nodes(t, extra=dict(extras, **{name: 1})), 1)] != names0:
                        continue
                except Exception:  # noqa
                    continue
            try:
                m1 = pyubx2.UBXMessage(clsid[0:1], clsid[1:2], mode, **dict(base_kw, **{name: value}))
                a1 = dict(C.public_attrs(pyubx2.UBXReader.parse(m1.serialize(), msgmode=mode)))
            except Exception:  # noqa - a refusal is not this check's business (C03 / C15)
                continue
            tried += 1
            changed = [n for n in a0 if n != name and (n not in a1 or repr(a1[n]) != repr(a0[n]))]
            changed += [n for n in a1 if n not in a0 and n != name]
            if changed:
                out.viol.append((f"{PROP}|{C.MODES[mode]}|{defname}|one-keyword-feeds-other-field:{C.base_name(name)}",
                                 f"keyword {name}={value!r} alone also changed {changed[:4]}"))
                break
        out.nontrivial = tried > 0
        out.counts = {"one-name-builds": tried}
        out.sample = {"mode": C.MODES[mode], "definition": defname, "single-keyword builds": tried}
        return out
    if k == "msgid":
        mk, name = bytes(case["key"]), case["name"]
        key = f"{PROP}|MSGIDS|{mk.hex()}|"
        out.classes = ["msgid"]
        out.nontrivial = True
        if len(mk) not in (2, 3) or not isinstance(name, str) or not name:
            out.viol.append((key + "shape", f"{mk!r}: {name!r}"))
        elif mk[0:1] not in pyubx2.UBX_CLASSES:
            out.viol.append((key + "class", f"class {mk[0:1].hex()} not in UBX_CLASSES"))
        elif len(mk) == 3 and not V.is_mga_typed(mk[0:2]):
            out.viol.append((key + "3-byte-key", "3-byte key outside the MGA class"))
        return out
    if k == "variant-key":
        from pyubx2.ubxvariants import VARIANTS

        mode, mk = case["mode"], bytes(case["key"])
        out.classes = ["variant-key"]
        out.nontrivial = True
        key = f"{PROP}|VARIANTS|{C.MODES.get(mode, mode)}|{mk.hex()}|"
        if mode not in (0, 1, 2) or not callable(VARIANTS[mode][mk]):
            out.viol.append((key + "shape", "mode/selector malformed"))
        known_ids = {x[0:2] for x in pyubx2.UBX_MSGIDS}
        if mk not in known_ids:
            out.viol.append((key + "unknown-id", "variant selector for an ID missing from UBX_MSGIDS"))
        return out
    if k == "cfgval-names":
        name, bit = case["name"], case["bit"]
        db = pyubx2.UBX_CONFIG_DATABASE
        out.classes = ["two-keys-two-names"]
        if name not in db:
            out.classes = ["skipped:key-gone"]
            return out
        kid, _typ = db[name]
        nb = kid ^ (1 << bit)
        if any(k_ == nb for k_, _t in db.values()):
            out.classes = ["skipped:neighbour-documented"]
            return out
        out.nontrivial = True
        w = {1: 1, 2: 1, 3: 2, 4: 4, 5: 8}[(kid >> 28) & 7]
        frame = codec.ubx_frame(b"\x06", b"\x8a", b"\x00\x01\x00\x00" + kid.to_bytes(4, "little") + bytes(w)
                                + nb.to_bytes(4, "little") + b"\x01" * w)
        try:
            names_ = [n_ for n_, _v in C.public_attrs(pyubx2.UBXReader.parse(frame, msgmode=1))]
        except Exception as err:  # noqa
            names_ = [f"<{type(err).__name__}>"]
        if len(names_) != len(set(names_)) or sum(1 for n_ in names_ if n_.startswith("CFG_")) != 2:
            out.viol.append((f"{PROP}|CFGVAL|two-fields-one-name",
                             f"CFG-VALSET with {hex(kid)} ({name}) and {hex(nb)} exposes {names_[-3:]}"))
        return out
    if k == "cfgkey":
        name = case["name"]
        db = pyubx2.UBX_CONFIG_DATABASE
        out.classes = ["cfgkey"]
        out.nontrivial = True
        if name not in db:
            out.classes = ["skipped:key-gone"]
            return out
        key = f"{PROP}|CFGDB|{name}|"
        ent = db[name]
        if not (isinstance(ent, tuple) and len(ent) == 2 and isinstance(ent[0], int) and not isinstance(ent[0], bool)):
            out.viol.append((key + "shape", repr(ent)))
            return out
        kid, typ = ent
        if not (0 <= kid < 1 << 32):
            out.viol.append((key + "id-range", hex(kid)))
        if not isinstance(typ, str) or not codec.is_type(typ) or typ == "CH":
            out.viol.append((key + "bad-type", repr(typ)))
            return out
        code = (kid >> 28) & 7
        width = {1: 1, 2: 1, 3: 2, 4: 4, 5: 8}.get(code)
        if width is None:
            out.viol.append((key + "size-code", f"size code {code} in {hex(kid)}"))
        elif codec.tsize(typ) != width:
            out.viol.append((key + "width", f"type {typ} but key ID {hex(kid)} prescribes {width} byte(s)"))
        if pyubx2.UBX_CONFIG_STORSIZE.get(code) != width and width is not None:
            out.viol.append((f"{PROP}|CFGDB|STORSIZE|{code}", f"UBX_CONFIG_STORSIZE[{code}] = "
                                                           f"{pyubx2.UBX_CONFIG_STORSIZE.get(code)}"))
        return out
    raise ValueError(k)


def run_shard(spec, ctx, acc):
    if spec.get("what") == "race":
        # steady-state concurrency (see vp/props/racing.py)
        for suite in spec["suites"]:
            case = {"kind": "race", "suite": suite, "seconds": 1.2 if ctx["tier"] == "quick" else 20}
            core.handle(acc, check(case), case, set(ctx["known"]))
        return
    import pyubx2
    from pyubx2.ubxvariants import VARIANTS

    known = set(ctx["known"])
    if spec["what"] == "defs":
        tabs = catalog.tables()
        work = [(m, n) for m in sorted(tabs) for n in sorted(tabs[m])]
        for i, (mode, name) in enumerate(work):
            if i % spec["of"] != spec["part"]:
                continue
            case = {"kind": "def", "mode": mode, "defname": name}
            core.handle(acc, core.checked(check, case), case, known)
        targets = C.cat()[0]
        for i, t in enumerate(targets):
            if i % spec["of"] != spec["part"]:
                continue
            case = {"kind": "nominal", "mode": t.mode, "clsid": t.clsid, "defname": t.defname,
                    "route": "payload"}
            # under the default interpreter state and under each of the others
            for env in (None,) + tuple(core.ENVS):
                core.handle(acc, core.checked(check, case, env=env), case, known)
            if not G.audit_fatal(t.defn) and kw_constructible(t):
                case = dict(case, route="kw")
                for env in (None,) + tuple(core.ENVS):
                    core.handle(acc, core.checked(check, case, env=env), case, known)
                case = {"kind": "onename", "mode": t.mode, "clsid": t.clsid, "defname": t.defname}
                core.handle(acc, core.checked(check, case), case, known)
            else:
                acc.skipped["kw-route-not-applicable-by-rule"] += 1
        return
    acc.extra["unreachable_definitions"] = C.cat()[1]
    acc.extra["unmodelled_variants"] = [f"{m}:{k.hex()}" for m, k in C.cat()[2]]
    for modname in TABLE_MODULES:
        case = {"kind": "source", "module": modname}
        core.handle(acc, core.checked(check, case), case, known)
    for mk, name in pyubx2.UBX_MSGIDS.items():
        case = {"kind": "msgid", "key": mk, "name": name}
        core.handle(acc, core.checked(check, case), case, known)
    for mode, d in VARIANTS.items():
        for mk in d:
            case = {"kind": "variant-key", "mode": mode, "key": mk}
            core.handle(acc, core.checked(check, case), case, known)
    # use the library a little (key/value messages with documented and undocumented
    # keys), then audit the tables: "as found in the working tree" includes after use
    from vp.props import c13

    before = c13.table_digests()
    for kid in (0x20990099, 0x30FF0001, 0x40520001, 0x10340014, 0x5099000A):
        w = {1: 1, 2: 1, 3: 2, 4: 4, 5: 8}[(kid >> 28) & 7]
        for mode, cid, hdr in ((0, b"\x06\x8b", b"\x01\x00\x00\x00"), (1, b"\x06\x8a", b"\x00\x01\x00\x00")):
            try:
                pyubx2.UBXReader.parse(codec.ubx_frame(cid[0:1], cid[1:2], hdr + kid.to_bytes(4, "little") + bytes(w)),
                                       msgmode=mode)
            except Exception:  # noqa
                pass
    after = c13.table_digests()
    for tname in before:
        if before[tname] != after[tname]:
            acc.violations.append({"key": f"{PROP}|TABLES|{tname}|changed-by-use",
                                   "case": {"kind": "cfgkey", "name": "CFG_UART1_BAUDRATE"},
                                   "detail": f"table {tname} differs after key/value messages were parsed"})
    # key/value messages take their attribute names from the payload: a documented key next to
    # an undocumented ID that differs from it in one reserved bit are two fields, two names
    for j, name in enumerate(sorted(pyubx2.UBX_CONFIG_DATABASE)):
        if j % 9:
            continue
        for bit in (24, 27, 12, 15, 26):
            case = {"kind": "cfgval-names", "name": name, "bit": bit}
            core.handle(acc, core.checked(check, case), case, known)
    for name in pyubx2.UBX_CONFIG_DATABASE:
        case = {"kind": "cfgkey", "name": name}
        core.handle(acc, core.checked(check, case), case, known)
