"""Steady-state concurrency: several threads use the library at the same time, long
after everything has been initialised.  Each worker is a pure function of the
library (parse a frame, build a message, print it, read a stream); its result
in a crowd of threads must equal its result alone.

The schedule belongs to the interpreter, not to the harness: the search is a
large number of rounds under a very short switch interval.  On a tree without
shared mutable state no schedule can produce a difference, so the check cannot
raise a false alarm; on a tree with such state it is a (high-probability) search.
"""

import sys
import threading
import time

from vp.ref import codec


def race(workers, seconds=1.2, rounds=4000, switch=1e-6):
    """workers: [(label, fn)], fn() -> comparable value.
    -> (mismatches [(label, detail)], calls made)"""
    base = {}
    for label, fn in workers:
        try:
            vals = [_call(fn) for _ in range(3)]
        except Exception:  # noqa
            continue
        if vals[0] == vals[1] == vals[2]:
            base[label] = vals[0]
    live = [(lb, fn) for lb, fn in workers if lb in base]
    if len(live) < 2:
        return [], 0
    bad, calls = {}, [0]
    start = threading.Barrier(len(live))
    stop_at = [0.0]

    def run(label, fn):
        try:
            start.wait(timeout=10)
        except threading.BrokenBarrierError:
            return
        n = 0
        while n < rounds and time.monotonic() < stop_at[0] and label not in bad:
            got = _call(fn)
            n += 1
            if got != base[label]:
                bad[label] = f"round {n}: {str(got)[:160]} instead of {str(base[label])[:160]}"
        calls[0] += n

    # error paths first, in this thread: whatever they leave behind (a lock taken and not
    # released on the way out, a half-built cache entry) must not stop the others
    for fn in failing_operations():
        _call(fn)
    old = sys.getswitchinterval()
    sys.setswitchinterval(switch)
    try:
        stop_at[0] = time.monotonic() + seconds
        ths = [threading.Thread(target=run, args=w, daemon=True) for w in live]
        for t in ths:
            t.start()
        for t in ths:
            t.join(seconds + 45)
        for (label, _fn), t in zip(live, ths):
            if t.is_alive() and label not in bad:
                bad[label] = ("did not finish: blocked for more than 45 s after its time was up (another thread "
                              "went through an error path just before)")
    finally:
        sys.setswitchinterval(old)
    return sorted(bad.items()), calls[0]


def failing_operations():
    """Calls that end in an error (each a documented refusal)."""
    import pyubx2

    f = codec.ubx_frame
    return [
        lambda: pyubx2.cfgkey2name(0x60930001),            # size code outside 1..5
        lambda: pyubx2.cfgkey2name(0x00000000),
        lambda: pyubx2.cfgname2key("CFG_NO_SUCH_KEY"),
        lambda: pyubx2.UBXMessage.config_set(1, 0, [("CFG_NO_SUCH_KEY", 1)]),
        lambda: pyubx2.UBXMessage.config_set(1, 0, [(0x60930001, 1)]),
        lambda: pyubx2.UBXReader.parse(f(b"\x06", b"\x8b", bytes([1, 0, 0, 0]) + (0x60930001).to_bytes(4, "little") + b"\x01")),
        lambda: pyubx2.UBXReader.parse(f(b"\x05", b"\x01", b"\x06\x01")[:-1] + b"\x00"),
        lambda: pyubx2.UBXReader.parse(f(b"\x77", b"\x01", b"\x01"), msgmode=1),
        lambda: pyubx2.UBXReader.parse(f(b"\x01", b"\x35", bytes([0, 0, 0, 0, 1, 9, 0, 0]) + bytes(20))),   # group cut short
        lambda: pyubx2.UBXMessage("CFG", "CFG-MSG", 1, msgClass=300),
        lambda: pyubx2.UBXMessage("CFG", "CFG-PRT", 1, charLen=8),
        lambda: pyubx2.UBXMessage("NAV", "NAV-SAT", 0, numSvs=2, gnssId_02="x"),
        lambda: pyubx2.UBXMessage("FOO", "FOO-BAR", 0),
        lambda: pyubx2.val2bytes(-1, "U001"),
        lambda: pyubx2.val2bytes("x", "R004"),
    ]


def _call(fn):
    try:
        return fn()
    except Exception as err:  # noqa - part of the result
        return f"exc:{type(err).__name__}:{err}"[:200]


# ------------------------------------------------------------------ workers
def frames():
    """A few well-formed frames of different types and sizes."""
    f = codec.ubx_frame
    sat = bytes([0, 0, 0, 0, 1, 24, 0, 0]) + bytes((i * 7 + 3) & 0xFF for i in range(24 * 12))
    return {
        "NAV-SAT": (f(b"\x01", b"\x35", sat), 0),
        "NAV-PVT": (f(b"\x01", b"\x07", bytes(range(92))), 0),
        "MON-VER": (f(b"\x0a", b"\x04", b"ROM CORE 3.01 (107888)".ljust(30, b"\0") + b"00080000".ljust(10, b"\0")
                      + b"FWVER=SPG 3.01".ljust(30, b"\0") * 3), 0),
        "INF-NOTICE": (f(b"\x04", b"\x02", b"notice " * 500), 0),
        "ACK-ACK": (f(b"\x05", b"\x01", b"\x06\x01"), 0),
        "ACK-NAK": (f(b"\x05", b"\x00", b"\x01\x07"), 0),
        "CFG-MSG": (f(b"\x06", b"\x01", b"\x0a\x09\x00\x01\x00\x00\x00\x00"), 1),
        "CFG-VALGET": (f(b"\x06", b"\x8b", bytes([1, 0, 0, 0]) + b"".join(
            (0x40520001 + 0x10000 * i).to_bytes(4, "little") + (9600 * (i + 1)).to_bytes(4, "little") for i in range(4))), 0),
        "MON-COMMS": (f(b"\x0a", b"\x36", bytes([0, 3, 0, 0, 1, 2, 3, 4]) + bytes((i * 5) & 0xFF for i in range(120))), 0),
        "CFG-RATE-POLL": (f(b"\x06", b"\x08", b""), 2),
    }


def parse_workers(names=None):
    import pyubx2

    out = []
    for nm, (fr, mode) in frames().items():
        if names and nm not in names:
            continue

        def fn(fr=fr, mode=mode):
            m = pyubx2.UBXReader.parse(fr, msgmode=mode)
            return m.serialize().hex() + "|" + repr(m) + "|" + str(m)

        out.append((f"parse:{nm}", fn))
    return out


def build_workers():
    import pyubx2

    sat = {"numSvs": 24}
    for i in range(1, 25):
        sat.update({f"gnssId_{i:02d}": i % 7, f"svId_{i:02d}": i, f"cno_{i:02d}": 20 + i, f"elev_{i:02d}": i - 12,
                    f"qualityInd_{i:02d}": i % 8, f"health_{i:02d}": i % 3})
    specs = {
        "kw:NAV-SAT": (("NAV", "NAV-SAT", 0), sat),
        "kw:CFG-MSG": (("CFG", "CFG-MSG", 1), {"msgClass": 10, "msgID": 9, "rateUART1": 1, "rateUSB": 2}),
        "kw:CFG-RATE": (("CFG", "CFG-RATE", 1), {"measRate": 1000, "navRate": 1, "timeRef": 1}),
        "kw:MON-VER-poll": (("MON", "MON-VER", 2), {}),
        "kw:CFG-PRT": ((b"\x06", b"\x00", 1), {"portID": 1, "charLen": 3, "parity": 4, "nStopBits": 2, "baudRate": 9600,
                                               "inUBX": 1, "outNMEA": 1}),
        "kw:NAV-PVT": ((1, 7, 0), {"lat": 52.5, "lon": -2.25, "numSV": 12, "gnssFixOk": 1, "year": 2024}),
        "kw:CFG-GNSS": (("CFG", "CFG-GNSS", 1), {"numConfigBlocks": 3, "gnssId_01": 0, "gnssId_02": 2, "gnssId_03": 6,
                                                 "enable_01": 1, "enable_03": 1, "maxTrkCh_02": 8}),
    }
    out = []
    for lb, ((a, b, mode), kw) in specs.items():
        def fn(a=a, b=b, mode=mode, kw=kw):
            m = pyubx2.UBXMessage(a, b, mode, **kw)
            return m.serialize().hex() + "|" + str(m)

        out.append((lb, fn))

    def cfg():
        m = pyubx2.UBXMessage.config_set(1, 0, [("CFG_UART1_BAUDRATE", 115200), (0x10520005, 1), ("CFG_TP_DUTY_TP1", -0.0)])
        return m.serialize().hex()

    out.append(("config_set", cfg))
    return out


def reader_workers(n=4, frames_each=120):
    import io

    from vp.props import streamlib as S

    fr = frames()
    names = sorted(fr)
    nmea = codec.nmea_frame("GNGLL,5327.04319,N,00214.41396,W,223232.00,A,A")
    out = []
    for w in range(n):
        parts = []
        for i in range(frames_each):
            parts.append(fr[names[(i * (w + 1) + w) % len(names)]][0] if names[(i * (w + 1) + w) % len(names)] not in
                         ("CFG-MSG", "CFG-RATE-POLL") else fr["ACK-ACK"][0])
            if i % 5 == w:
                parts.append(nmea)
        data = b"".join(parts)

        def fn(data=data):
            rd = S.mk_reader(io.BytesIO(data), {"quitonerror": 0})
            return [(raw.hex()[:24], len(raw), str(p)[:60]) for raw, p in rd]

        out.append((f"reader:{w}", fn))
    return out


SUITES = {
    "parse": lambda: parse_workers(),
    "build": lambda: build_workers(),
    "reader": lambda: reader_workers(),
    "mixed": lambda: parse_workers() + build_workers(),
}


def check_race(prop, case):
    """case = {"kind": "race", "suite": name}: run the suite's workers side by side."""
    from vp import core

    suite = case["suite"]
    out = core.Out(classes=[f"concurrent:{suite}"], dig=None)
    bad, calls = race(SUITES[suite](), seconds=case.get("seconds", 1.2))
    out.n = calls
    out.nt = calls
    out.nontrivial = calls > 0
    out.counts = {"concurrent-calls": calls}
    out.sample = {"suite": suite, "calls made side by side": calls}
    for label, detail in bad[:3]:
        out.viol.append((f"{prop}|concurrent|{label.split(':')[0]}",
                         f"{label} gives another result while other threads use the library: {detail}"[:400]))
    return out
