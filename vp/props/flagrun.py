"""Success paths under interpreter flags that cannot be switched on from inside a
process: `-bb` (comparing or formatting bytes as text is an error) and `-O`.

  python -bb -m vp.props.flagrun C17 <part> <of>      one JSON line on stdout
  python -bb -m vp.props.flagrun C17 --case <json>    one case (replays)

C17: every SET / POLL nominal frame parsed in its true mode and with SETPOLL - if
the former succeeds, so must the latter, with the same mode and attributes.
(This module must itself be clean under -bb: bytes are only ever printed as hex.)
"""

import json
import sys


def c17_cases(part, of):
    from vp.props import c16
    from vp.props import common as C
    from vp.ref import codec
    from vp.ref import grammar as G

    for i, t in enumerate(C.cat()[0]):
        if i % of != part or t.mode not in (1, 2) or G.audit_fatal(t.defn):
            continue
        try:
            payload = G.encode(c16.nominal_nodes(t))
        except Exception:  # noqa
            continue
        if not t.selects(payload) or len(payload) <= 2:
            continue  # (0..2-byte payloads: the in-process check and its listed findings cover them)
        yield {"kind": "flagged", "mode": t.mode, "defname": t.defname,
               "frame": codec.ubx_frame(t.clsid[0:1], t.clsid[1:2], payload)}


def c17_judge(case):
    import pyubx2

    frame, mode = bytes(case["frame"]), case["mode"]
    flags = ("-bb" if sys.flags.bytes_warning >= 2 else "") + ("-O" if not __debug__ else "")
    try:
        a = pyubx2.UBXReader.parse(frame, msgmode=mode)
    except Exception:  # noqa - not a success path under these flags
        return []
    key = "C17|" + ("SET" if mode == 1 else "POLL") + "|" + case["defname"] + "|interpreter" + flags + "|"
    try:
        b = pyubx2.UBXReader.parse(frame, msgmode=3)
    except Exception as err:  # noqa
        return [(key + "setpoll-raises:" + type(err).__name__,
                 "frame " + frame[:24].hex() + " parses in its true mode but SETPOLL raises " + type(err).__name__
                 + " (python " + flags + ")")]
    if b.msgmode != mode or [k for k in vars(a) if k[0] != "_"] != [k for k in vars(b) if k[0] != "_"]:
        return [(key + "resolved-differently", "frame " + frame[:24].hex() + " resolves to mode " + repr(b.msgmode))]
    return []


def main():
    from vp import core

    core.setup_paths()
    prop = sys.argv[1]
    assert prop == "C17"
    if sys.argv[2] == "--case":
        case = core.jdec(json.loads(sys.argv[3]))
        print(json.dumps({"viol": [[k, d] for k, d in c17_judge(case)]}))
        return
    part, of = int(sys.argv[2]), int(sys.argv[3])
    n, viol, seen = 0, [], set()
    for case in c17_cases(part, of):
        n += 1
        for k, d in c17_judge(case):
            if k not in seen:
                seen.add(k)
                viol.append([k, d, core.jenc(case)])
    print(json.dumps({"n": n, "viol": viol, "bytes_warning": sys.flags.bytes_warning, "optimised": not __debug__}))


if __name__ == "__main__":
    main()
