"""C15 - bad attribute values are refused, never silently mis-encoded.

Domain   keyword-constructible (mode, definition) x a valid instance supplying
         every attribute as the parser reports it x one or two *hostile*
         attributes (plain, scaled, float, bytes, array, bit flag, raw bitfield,
         group count, variant discriminator) x values of any Python type and
         magnitude.
Oracle   outcome is either UBXMessageError / UBXTypeError, or a message whose
         payload has exactly the length the definition and the supplied counts
         imply and which - decoded by the independent reference decoder over the
         known layout - holds the supplied value in the hostile field (ints
         numerically, floats as IEEE-rounded, scaled within one unit of
         resolution, bytes exactly) and leaves every other field as supplied.
"""

import math
import os
import struct

from hypothesis import strategies as st

from vp import core
from vp.gen import layout
from vp.props import common as C
from vp.props import c03, c16
from vp.ref import catalog, codec
from vp.ref import grammar as G

PROP = "C15"
LEVEL = "exploration"
TECHNIQUE = ("property-based testing (Hypothesis) with hostile keyword values; oracle = "
             "reference decoder over the known layout plus an exception-type check")
RULE = ("case = (mode, definition, bf, valid instance, [(attribute, hostile value)]); non-trivial = "
        "at least one hostile value lies outside the representable set of its field; distinct by "
        "digest of (definition, bf, attribute names, repr of values, base payload)")
ASSUMPTIONS = [
    "class/ID arguments and msgmode are not keyword values (outside the domain)",
    "the layout of the message is known from the valid base instance (reference grammar)",
    "'one unit of resolution' for a scaled field is |scale|",
]

UNSET = object()


def floors(tier):
    return {"kind=int": 500, "kind=scaled": 300, "kind=flag": 200, "kind=bytes": 50, "kind=float": 50,
            "kind=count": 50, "kind=disc": 30, "refused": 1500, "accepted": 500, "outside": 2000,
            "python -O": 3000, "reserved-flag": 300}


def plan(tier, seed):
    targets = C.cat()[0]
    idx = [i for i, t in enumerate(targets)
           if not G.audit_fatal(t.defn) and c16.kw_constructible(t) and not c03.has_hp(t.defn)]
    return [{"what": "optimised", "part": i, "of": 12} for i in range(12)] + [
        {"targets": p} for p in C.split_round_robin(idx, 24)] + [{"what": "race", "suites": ["build"]}]


# --------------------------------------------------------------- hostile values
def hostile_values(width_bytes):
    n = max(1, width_bytes)
    big = 1 << (8 * n)
    ints = st.one_of(
        st.sampled_from([big, big - 1, big // 2, big // 2 - 1, -1, -big // 2, -big // 2 - 1, big + 1,
                         10 ** 400, -(10 ** 400), 0, 1, 255, 256, 65535, 65536, 2 ** 32, 2 ** 64]),
        # beyond the int -> str digit limit (built through map: they cannot be repr()-ed)
        st.sampled_from([(10, 5000, 1), (10, 5000, -1), (2, 70000, 1)]).map(lambda t: t[2] * t[0] ** t[1]),
        st.integers(-(2 ** 70), 2 ** 70))
    floats = st.one_of(st.sampled_from([float("nan"), float("inf"), float("-inf"), 1e300, -1e300, -0.0,
                                        0.5, 1e-320, 3.9999999, 2.0 ** 31, 1e39, 3.5e38]),
                       st.floats(allow_nan=True, allow_infinity=True))
    seqs = st.one_of(
        st.integers(0, 2 * n + 1).flatmap(lambda m: st.binary(min_size=m, max_size=m)),
        st.integers(0, 2 * n + 1).flatmap(lambda m: st.text(alphabet="aZ0 é", min_size=m, max_size=m)),
        # texts whose character count and UTF-8 byte count straddle the width
        st.integers(max(0, n - 3), n).flatmap(lambda m: st.text(alphabet="aé€ü", min_size=m, max_size=m)),
        # lone surrogates (what surrogateescape produces for undecodable bytes)
        st.integers(max(0, n - 2), n).flatmap(
            lambda m: st.lists(st.sampled_from(["\udc80", "\udce9", "\udcff", "\ud800", "\udc00", "x"]),
                               min_size=m, max_size=m).map("".join)),
        st.lists(st.integers(-2, 300), max_size=min(2 * n + 1, 270)),
        # exactly the right length, one or all elements of the wrong kind
        st.tuples(st.sampled_from([0.5, 1.5, 254.9, "7", b"\x01", None, True, float("nan"), -1, 256, [0], 0.25]),
                  st.integers(0, n - 1), st.booleans()).map(
            lambda t: [t[0]] * n if t[2] else [0] * t[1] + [t[0]] + [0] * (n - t[1] - 1)),
        st.sampled_from([[0] * n, [255] * n, [0] * (n + 1), [256] * n, [-1] * n,
                         # right length, wrong element type
                         [0.5] * n, [None] + [0] * (n - 1), ["a"] * n, [0] * (n - 1) + [b"\x01"], [[0]] * n,
                         [True] * n, [float("nan")] + [1] * (n - 1)]))
    other = st.sampled_from([None, True, False, (), (1, 2), {}, {"a": 1}, [None], 1j, b"", "", "x",
                             [1.5], bytearray(b"\x01")])
    # text and bytes that *look* like numbers (float() and int() accept several of them)
    looks = st.sampled_from(["12", b"12", " 7 ", b" 7 ", "1e3", b"1e3", "inf", b"inf", "nan", b"nan", "-0", b"-0.0",
                             "0x10", "1_000", b"1_0", bytearray(b"42"), bytearray(b"298"), b"298", "\u0663", "\u00bd",
                             "+5", b"+5", "1.", b".5", "1e400", b"1e-400", "Infinity", b"-Infinity", "0b1", "١٢"])
    # buffer objects: a plain byte view of the right / wrong size, views whose items are
    # wider than a byte or that have two dimensions (len() counts items, not bytes)
    import array

    def mkview(i):
        return [
            lambda: memoryview(bytes(i % 255 + 1 for i in range(n))), lambda: memoryview(bytes(n + 1)), lambda: memoryview(b""),
            lambda: memoryview(array.array("H", [0x0201] * n)),
            lambda: memoryview(array.array("H", [0x0201] * max(1, n // 2))),
            lambda: memoryview(array.array("I", [0x04030201] * n)),
            lambda: memoryview(bytes(2 * n)).cast("B", [n, 2]), lambda: memoryview(bytes(2 * n)).cast("B", [2, n]),
            lambda: bytearray(i % 255 + 1 for i in range(n)), lambda: bytearray(n + 1)][i]()

    views = st.integers(0, 9).map(mkview)
    return st.one_of(ints, floats, seqs, other, looks, views)


def sequence_fields(defn):
    """Names of attributes of type X / C / A anywhere in the definition."""
    out = set()

    def walk(d):
        for k, v in d.items():
            if G.is_group_def(v):
                walk(v[1])
            elif not G.is_bitfield_def(v):
                t = v[0] if isinstance(v, list) else v
                if t != "CH" and t[0] in "XCA":
                    out.add(k)

    walk(defn)
    return out


def scaled_fields(defn):
    out = set()

    def walk(d):
        for k, v in d.items():
            if G.is_group_def(v):
                walk(v[1])
            elif isinstance(v, list):
                out.add(k)

    walk(defn)
    return out


def value_kind(v, size=None):
    if size is not None and isinstance(v, (bytes, bytearray, str, list)):
        n = len(v.encode("utf-8", "backslashreplace")) if isinstance(v, str) else len(v)
        base = value_kind(v)
        return base + ("-short" if n < size else "-long" if n > size else "-exact")
    if isinstance(v, bool):
        return "bool"
    if isinstance(v, int):
        return "int"
    if isinstance(v, float):
        return "float" if math.isfinite(v) else "float-nonfinite"
    if isinstance(v, (bytes, bytearray)):
        return "bytes"
    if isinstance(v, str):
        return "str"
    if isinstance(v, list):
        return "list"
    if v is None:
        return "none"
    if isinstance(v, memoryview):
        return "view" if v.ndim == 1 and v.itemsize == 1 else "view-wide-items"
    return "container"


# --------------------------------------------------------------- field lookup
def find_field(nodes, attr, bf):
    """-> (kind, node, flag-entry|None) for an attribute name (with suffix)."""
    res = []

    def walk(ns, idx):
        sfx = G.suffix(idx)
        for nd in ns:
            if nd[0] == "f" and nd[1] + sfx == attr:
                res.append(("f", nd, None))
            elif nd[0] == "b":
                if bf:
                    for fl in nd[3]:
                        if fl[0] + sfx == attr:
                            res.append(("flag", nd, fl))
                elif nd[1] + sfx == attr:
                    res.append(("bits", nd, None))
            elif nd[0] == "g":
                for i, it in enumerate(nd[2]):
                    walk(it, idx + (i + 1,))

    walk(nodes, ())
    return res[0] if res else None


def fits(kind, nd, fl, val):
    """Can the field represent the hostile value?"""
    try:
        return _fits(kind, nd, fl, val)
    except (OverflowError, ValueError, TypeError):
        return False


def _fits(kind, nd, fl, val):
    if kind == "flag":
        w = codec.tsize(fl[1])
        ok = isinstance(val, int) and 0 <= val < (1 << w)
        return ok
    if isinstance(val, memoryview):
        # a view stands for the bytes it covers
        size = codec.tsize(nd[2]) if (kind == "bits" or nd[2][0] in "XC") else None
        return size is not None and kind != "flag" and val.contiguous and val.nbytes == size
    if kind == "bits":
        return isinstance(val, (bytes, bytearray)) and len(val) == codec.tsize(nd[2])
    t, scale = nd[2], nd[3]
    k = t[0]
    if scale is not None:
        if not isinstance(val, (int, float)) or (isinstance(val, float) and not math.isfinite(val)):
            return False
        lo, hi = codec.int_range(t)
        q = val / scale
        return lo - 1 < q < hi + 1
    if k in codec.INT_LETTERS:
        lo, hi = codec.int_range(t)
        return isinstance(val, int) and lo <= val <= hi
    if k == "R":
        if not isinstance(val, (int, float)):  # bool counts as the integer 0 / 1
            return False
        if codec.tsize(t) == 4 and isinstance(val, (int, float)) and math.isfinite(val) and abs(val) > 3.4028235677973366e38:
            return False
        return True
    if k == "X":
        return isinstance(val, (bytes, bytearray)) and len(val) == codec.tsize(t)
    if k == "C":
        if isinstance(val, str):
            return len(val.encode("utf-8", "backslashreplace")) == codec.tsize(t)
        return isinstance(val, (bytes, bytearray)) and len(val) == codec.tsize(t)
    if k == "A":
        return (isinstance(val, list) and len(val) == codec.tsize(t)
                and all(isinstance(x, int) and not isinstance(x, bool) and 0 <= x <= 255 for x in val))
    return False


def holds_value(kind, nd, fl, got_raw, val):
    """Does the decoded field hold the supplied value?"""
    try:
        if isinstance(val, memoryview):
            return kind != "flag" and (kind == "bits" or nd[2][0] in "XC") and bytes(got_raw) == val.tobytes()
        if kind == "flag":
            return isinstance(val, int) and got_raw == val
        if kind == "bits":
            return bytes(got_raw) == bytes(val)
        t, scale = nd[2], nd[3]
        k = t[0]
        if scale is not None:
            if not isinstance(val, (int, float)):
                return False
            return abs(got_raw * scale - val) <= abs(scale) * (1 + 1e-9) + 1e-12
        if k in codec.INT_LETTERS:
            return isinstance(val, (int, float)) and got_raw == val
        if k == "R":
            if not isinstance(val, (int, float)):
                return False
            fmt = "<f" if codec.tsize(t) == 4 else "<d"
            want = struct.unpack(fmt, struct.pack(fmt, float(val)))[0]
            return codec.float_same(codec.value_of(t, got_raw), want) or (
                codec.value_of(t, got_raw) == want)
        if k in "XC":
            if isinstance(val, str):
                return bytes(got_raw) == val.encode("utf-8", "backslashreplace")
            return isinstance(val, (bytes, bytearray)) and bytes(got_raw) == bytes(val)
        if k == "A":
            return isinstance(val, list) and list(got_raw) == val
    except Exception:  # noqa - incomparable => does not hold
        return False
    return False


def field_kind(kind, nd, t, attr):
    if kind == "flag":
        return "flag"
    if kind == "bits":
        return "bitfield"
    if nd[3] is not None:
        return "scaled"
    return {"U": "int", "I": "int", "E": "int", "L": "int", "R": "float", "X": "bytes", "C": "char",
            "A": "array"}[nd[2][0]]


def decode_leaves(nodes, payload, bf):
    """Decode `payload` over the layout of `nodes` -> {attr: raw} (bf view)."""
    spans, total = G.leaf_spans(nodes)
    out = {}
    it = iter(spans)

    def walk(ns, idx):
        sfx = G.suffix(idx)
        for nd in ns:
            if nd[0] == "f":
                name, s, e = next(it)
                out[nd[1] + sfx] = codec.dec_bytes(nd[2], payload[s:e]) if nd[2] != "CH" else payload[s:e]
            elif nd[0] == "b":
                name, s, e = next(it)
                word = int.from_bytes(payload[s:e], "little")
                if bf:
                    off = 0
                    for f, ft, _v in nd[3]:
                        w = codec.tsize(ft)
                        out[f + sfx] = (word >> off) & ((1 << w) - 1)
                        off += w
                    out["<spare>" + nd[1] + sfx] = word >> off
                else:
                    out[nd[1] + sfx] = payload[s:e]
            else:
                for i, sub in enumerate(nd[2]):
                    walk(sub, idx + (i + 1,))

    walk(nodes, ())
    return out, total


def base_raws(nodes, bf):
    out = {}

    def walk(ns, idx):
        sfx = G.suffix(idx)
        for nd in ns:
            if nd[0] == "f":
                out[nd[1] + sfx] = nd[4]
            elif nd[0] == "b":
                if bf:
                    for f, _ft, v in nd[3]:
                        out[f + sfx] = v
                    out["<spare>" + nd[1] + sfx] = nd[4]
                else:
                    out[nd[1] + sfx] = G.encode([nd])
            else:
                for i, sub in enumerate(nd[2]):
                    walk(sub, idx + (i + 1,))

    walk(nodes, ())
    return out


def _child_env():
    import sys

    return dict(os.environ, PYTHONPATH=os.pathsep.join(
        [os.path.dirname(os.path.dirname(os.path.dirname(os.path.abspath(__file__))))] + [p for p in sys.path if p]))


def check(case) -> core.Out:
    if isinstance(case, dict) and case.get("kind") == "race":
        from vp.props import racing

        return racing.check_race(PROP, case)
    import pyubx2

    if case.get("kind") == "optimised":
        # judged in a child interpreter started with -O (see c15_opt)
        import json
        import subprocess
        import sys

        r = subprocess.run([sys.executable, "-O", "-m", "vp.props.c15_opt", "--case", json.dumps(core.jenc(case))],
                           capture_output=True, text=True, env=_child_env(), timeout=600)
        res = json.loads(r.stdout.strip().splitlines()[-1])
        return core.Out(viol=[tuple(v) for v in res["viol"]], classes=["python -O"])

    mode, clsid, defname, bf, nodes = (case["mode"], bytes(case["clsid"]), case["defname"],
                                       case["bf"], case["nodes"])
    hostile = [(a, v) for a, v in case["hostile"]]
    t = C.find_target(mode, clsid, defname)
    out = core.Out(classes=[f"bf={bf}"])
    if t is None:
        out.classes = ["skipped:definition-gone"]
        return out
    payload = G.encode(nodes)
    if not t.selects(payload):
        out.classes = ["skipped:not-selecting"]
        return out
    try:
        m = pyubx2.UBXReader.parse(codec.ubx_frame(clsid[0:1], clsid[1:2], payload), msgmode=mode,
                                   parsebitfield=bf)
        reported = dict(C.public_attrs(m))
    except Exception:  # noqa
        out.classes = ["skipped:does-not-parse"]
        return out
    names = [n for n, _ in G.expect(nodes, bf)]
    if set(names) != set(reported):
        out.classes = ["skipped:attributes-differ(C02)"]
        return out
    must, must_not = c03.required_kw(t)
    kw = {n: reported[n] for n in names if n not in must_not}
    cnames = set(G.count_names(t.defn))
    infos = []
    sizes = {}
    outside = False
    kw_valid = dict(kw)
    for attr, val in hostile:
        if attr in must_not:
            continue
        fld = find_field(nodes, attr, bf)
        if fld is None:
            continue
        kind, nd, fl = fld
        special = t.clsid == b"\x10\x02" and mode == 1 and attr == "calibTtagValid"  # sizes the group too
        fk = "count" if attr in cnames or special else ("disc" if attr in must else field_kind(kind, nd, None, attr))
        rep = fits(kind, nd, fl, val)
        outside = outside or not rep
        infos.append((attr, val, kind, nd, fl, fk, rep))
        sizes[attr] = None if kind == "flag" else (codec.tsize(nd[2]) if nd[2] != "CH" else None)
        kw[attr] = val
    if not infos:
        out.classes = ["skipped:no-hostile-field"]
        return out
    for _a, val, _k, _nd, _fl, fk, rep in infos:
        out.classes.append(f"kind={fk}")
        out.classes.append(f"val={value_kind(val)}")
    if outside:
        out.classes.append("outside")
    out.nontrivial = outside
    out.dig = core.digest((defname, mode, bf, [(a, core.srepr(v, 200)) for a, v, *_ in infos], payload))
    out.sample = {"definition": defname, "mode": C.MODES[mode], "bf": bf,
                  "hostile": [[a, core.srepr(v, 40)] for a, v, *_ in infos]}
    a0, v0, k0, nd0, fl0, fk0, rep0 = infos[0]

    def vk(attr, val):
        return value_kind(val, sizes.get(attr))

    key = f"{PROP}|{fk0}|{vk(a0, v0)}|"
    desc = f"{C.MODES[mode]} {defname} bf={bf} " + ", ".join(f"{a}={core.srepr(v, 50)}" for a, v, *_ in infos)
    # differential baseline: the same keywords without the hostile values must
    # regenerate the base payload (otherwise the case belongs to C03)
    try:
        b0 = pyubx2.UBXMessage(clsid[0:1], clsid[1:2], mode, parsebitfield=bf, **kw_valid)
        if (b0.payload or b"") != payload:
            if not bf and c03.count_in_flag(t.defn) and len(b0.payload or b"") != len(payload):
                out.viol.append((f"{PROP}|count-in-bitfield|bytes-exact|wrong-length",
                                 f"{desc.split(' bf=')[0]} bf=0: keywords for {len(payload)} bytes (the supplied bitfield "
                                 f"sizes the group) build a payload of {len(b0.payload or b'')} bytes"))
                return out
            raise ValueError
    except Exception:  # noqa
        out.classes = ["skipped:baseline-does-not-round-trip(C03)"]
        out.nontrivial = False
        return out
    try:
        built = pyubx2.UBXMessage(clsid[0:1], clsid[1:2], mode, parsebitfield=bf, **kw)
        got = built.payload or b""
    except (pyubx2.UBXMessageError, pyubx2.UBXTypeError):
        out.classes.append("refused")
        return out
    except Exception as err:  # noqa
        out.viol.append((key + f"escapes:{type(err).__name__}", f"{desc} escaped as {err!r}"[:300]))
        return out
    out.classes.append("accepted")
    # accepted: the layout is that of the base instance unless a count / discriminator changed
    structural = [i for i in infos if i[5] in ("count", "disc")]
    if structural:
        for attr, val, kind, nd, fl, fk, rep in structural:
            if not rep:
                out.viol.append((f"{PROP}|{fk}|{vk(attr, val)}|accepted-unrepresentable",
                                 f"{desc}: accepted although {attr} cannot hold {core.srepr(val, 40)}"))
        if not out.viol and all(i[5] == "count" for i in structural):
            # payload length must be the one the supplied counts imply
            counts = {n: G.leaf_lookup(nodes, n) for n in cnames}
            calib = G.leaf_lookup(nodes, "calibTtagValid")
            for attr, val, *_ in structural:
                if attr == "calibTtagValid" and attr not in cnames:
                    calib = int(val)
                else:
                    counts[attr] = int(val)
            ff = {k_: v_ for k_, v_ in (catalog.forced_for_kw(t) or {}).items() if not isinstance(v_, tuple)}
            z = layout.zero_instance(t.defn, mode, clsid, forced=ff, counts=counts)
            for nd_ in z:  # flags that drive special counts keep their base value
                pass
            want_len = len(G.encode(z))
            if t.clsid == b"\x10\x02" and mode == 1 and calib:
                want_len += 4
            if len(got) != want_len:
                out.viol.append((f"{PROP}|count|{vk(structural[0][0], structural[0][1])}|wrong-length",
                                 f"{desc}: payload length {len(got)}, counts imply {want_len}"))
        return out
    if len(got) != len(payload):
        out.viol.append((key + "wrong-length", f"{desc}: payload length {len(got)}, definition implies {len(payload)}"))
        return out
    dec, _ = decode_leaves(nodes, got, bf)
    base = base_raws(nodes, bf)
    hostile_names = {i[0] for i in infos}
    for attr, val, kind, nd, fl, fk, rep in infos:
        if not holds_value(kind, nd, fl, dec[attr], val):
            sym = "mis-encoded" if rep else "accepted-unrepresentable"
            out.viol.append((f"{PROP}|{fk}|{vk(attr, val)}|{sym}",
                             f"{desc}: field {attr} holds raw {dec[attr]!r:.40} after supplying {core.srepr(val, 40)}"))
    for name, raw in base.items():
        if name in hostile_names:
            continue
        if name.startswith("<spare>") and not bf:
            continue
        if dec.get(name) != raw and not (isinstance(raw, list) and list(dec.get(name)) == raw):
            out.viol.append((key + "other-field-altered",
                             f"{desc}: field {name} changed from {raw!r:.30} to {dec.get(name)!r:.30}"))
            break
    return out


def run_optimised(spec, ctx, acc):
    """The range checks must not live in assert statements: the same oracle in a
    child interpreter started with -O (see c15_opt)."""
    import json
    import subprocess
    import sys

    known = set(ctx["known"])
    env = _child_env()
    r = subprocess.run([sys.executable, "-O", "-m", "vp.props.c15_opt", str(spec["part"]), str(spec["of"])],
                       capture_output=True, text=True, env=env, timeout=3000)
    try:
        res = json.loads(r.stdout.strip().splitlines()[-1])
    except Exception:  # noqa
        acc.errors.append(f"optimised-interpreter run failed: rc={r.returncode} {r.stderr[-400:]}")
        return
    if not res.get("optimised"):
        acc.errors.append("optimised-interpreter run was not optimised")
    acc.evaluations += res["n"]
    acc.nontrivial_extra += res["nt"]
    acc.classes["python -O"] += res["n"]
    for k, d, case in res["viol"]:
        if k in known:
            acc.known_hits[k] += 1
        elif not any(v["key"] == k for v in acc.violations):
            acc.violations.append({"key": k, "case": case, "detail": d + " [interpreter started with -O]"})


def _all_defs(defn):
    """Every value of a definition, groups flattened."""
    for v in defn.values():
        yield v
        if G.is_group_def(v):
            yield from _all_defs(v[1])


def reserved_flags(nodes):
    """Attribute names (with group suffix) of the reserved bit flags of an instance."""
    res = []

    def walk(ns, idx):
        sfx = G.suffix(idx)
        for nd in ns:
            if nd[0] == "b":
                res.extend(fl[0] + sfx for fl in nd[3] if fl[0].startswith("reserved"))
            elif nd[0] == "g":
                for i, it in enumerate(nd[2]):
                    walk(it, idx + (i + 1,))

    walk(nodes, ())
    return res


def run_shard(spec, ctx, acc):
    if spec.get("what") == "race":
        # steady-state concurrency (see vp/props/racing.py)
        for suite in spec["suites"]:
            case = {"kind": "race", "suite": suite, "seconds": 1.2 if ctx["tier"] == "quick" else 20}
            core.handle(acc, check(case), case, set(ctx["known"]))
        return
    if spec.get("what") == "optimised":
        return run_optimised(spec, ctx, acc)
    targets = C.cat()[0]
    known = set(ctx["known"])
    n = 40 if ctx["tier"] == "quick" else 400
    for ti in spec["targets"]:
        t = targets[ti]
        forced = catalog.forced_for_kw(t)
        if forced is None:
            acc.skipped["variant-constraints-conflict"] += 1
            continue
        inst = layout.instances(t.defn, mode=t.mode, clsid=t.clsid, forced=forced, zero_reserved=True,
                                max_payload=800, big_counts=False).filter(c03.not_nan_floats)
        base = {"kind": "hostile", "mode": t.mode, "clsid": t.clsid, "defname": t.defname}

        def with_hostile(nodes_bf, base=base):
            nodes, bf = nodes_bf
            names = [nm for nm, _ in G.expect(nodes, bf)]
            if not names:
                return st.just(dict(base, bf=bf, nodes=nodes, hostile=[]))

            def one(name):
                fld = find_field(nodes, name, bf)
                w = 4
                if fld is not None:
                    kind, nd, fl = fld
                    w = (codec.tsize(fl[1]) + 7) // 8 if kind == "flag" else (
                        codec.tsize(nd[2]) if nd[2] != "CH" else 4)
                return hostile_values(min(w, 64)).map(lambda v: [name, v])

            pick = st.lists(st.sampled_from(names), min_size=1, max_size=2, unique=True)
            return pick.flatmap(lambda ns: st.tuples(*[one(x) for x in ns])).map(
                lambda hs: dict(base, bf=bf, nodes=nodes, hostile=list(hs)))

        strat = st.tuples(inst, st.sampled_from([1, 1, 0])).flatmap(with_hostile)
        core.hyp_search(acc, strat, check, seed=core.derive(ctx["seed"], PROP, t.label),
                        max_examples=n, known=known, rounds=4)
        # definitions with byte-string / character / array attributes get an extra
        # search whose hostile attribute is always one of those
        scnames = scaled_fields(t.defn)
        if scnames:
            def with_scaled(nodes_bf, base=base, scnames=scnames):
                nodes, bf = nodes_bf
                names = [nm for nm, _ in G.expect(nodes, bf) if C.base_name(nm) in scnames]
                if not names:
                    return st.just(dict(base, bf=bf, nodes=nodes, hostile=[]))
                vals = st.one_of(st.integers(-300, 300), st.integers(-100000, 100000),
                                 st.floats(-400, 400, allow_nan=False), st.sampled_from([4, 5, 100, 255, -7, 90, 180, 179]))
                return st.tuples(st.sampled_from(names), vals).map(
                    lambda nv: dict(base, bf=bf, nodes=nodes, hostile=[[nv[0], nv[1]]]))

            core.hyp_search(acc, st.tuples(inst, st.sampled_from([1, 0])).flatmap(with_scaled), check,
                            seed=core.derive(ctx["seed"], PROP, "scaled", t.label),
                            max_examples=max(8, n // 3), known=known, rounds=3)
        # reserved bit flags are fields too: the parser does not report them, the constructor
        # takes them by name - values that fit are encoded, values that do not are refused
        def with_reserved(nodes, base=base):
            rnames = reserved_flags(nodes)
            if not rnames:
                return st.just(dict(base, bf=1, nodes=nodes, hostile=[]))

            def one(name):
                fld = find_field(nodes, name, 1)
                bits = codec.tsize(fld[2][1])
                return st.one_of(st.integers(0, (1 << bits) - 1), st.sampled_from([1, (1 << bits) - 1, 1 << bits, -1, 1 << 40]),
                                 hostile_values((bits + 7) // 8)).map(lambda v: [name, v])

            return st.sampled_from(rnames).flatmap(one).map(lambda h: dict(base, bf=1, nodes=nodes, hostile=[h]))

        if any(G.is_bitfield_def(v) and any(k.startswith("reserved") for k in v[1]) for v in _all_defs(t.defn)):
            before = acc.evaluations
            core.hyp_search(acc, inst.flatmap(with_reserved), check,
                            seed=core.derive(ctx["seed"], PROP, "reserved", t.label),
                            max_examples=max(10, n // 3), known=known, rounds=3)
            acc.classes["reserved-flag"] += acc.evaluations - before
        seqnames = sequence_fields(t.defn)
        if seqnames:
            def with_seq(nodes_bf, base=base, seqnames=seqnames):
                nodes, bf = nodes_bf
                names = [nm for nm, _ in G.expect(nodes, bf) if C.base_name(nm) in seqnames]
                if not names:
                    return st.just(dict(base, bf=bf, nodes=nodes, hostile=[]))

                def one(name):
                    fld = find_field(nodes, name, bf)
                    w = codec.tsize(fld[1][2]) if fld and fld[0] != "flag" else 4
                    return hostile_values(min(w, 260)).filter(
                        lambda v: isinstance(v, (str, bytes, bytearray, list))).map(lambda v: [name, v])

                return st.sampled_from(names).flatmap(one).map(lambda h: dict(base, bf=bf, nodes=nodes, hostile=[h]))

            core.hyp_search(acc, st.tuples(inst, st.just(1)).flatmap(with_seq), check,
                            seed=core.derive(ctx["seed"], PROP, "seq", t.label),
                            max_examples=n, known=known, rounds=4)
            # the critical sequence values for each such attribute, deterministically
            from vp.props import c16

            nom = c16.nominal_nodes(t)
            for name, _sp in G.expect(nom, 1):
                if C.base_name(name) not in seqnames:
                    continue
                fld = find_field(nom, name, 1)
                if fld is None or fld[0] == "flag" or fld[1][2] == "CH":
                    continue
                w = codec.tsize(fld[1][2])
                crit = [
                    "\udc80" * w, "\udcff" + "a" * (w - 1), "a" * (w - 1) + "\udc80", "\ud800" * w, "\udc00" + "a" * (w - 1),
                    "\u00e9" * w, "\u00e9" * (w // 2) + "a" * (w - 2 * (w // 2)), "\u20ac" * (w // 3) + "a" * (w % 3),
                    "a" * w, "a" * (w + 1), "a" * (w - 1) if w > 1 else "", "\x00" * w,
                    bytes(w), bytes(w + 1), bytes(w - 1), bytearray(w), [0] * w, [0] * (w + 1), [0] * (w - 1),
                    [0] * (w - 1) + [256], [0] * (w - 1) + [-1], [0] * (w - 1) + [0.5], [0] * (w - 1) + ["7"],
                    [0] * (w - 1) + [None], [0] * (w - 1) + [True], [0] * (w - 1) + [b"\x01"], [255] * w,
                    tuple([0] * w), memoryview(bytes(w)), memoryview(bytes(2 * w)).cast("H"),
                ]
                for v in crit:
                    case = dict(base, bf=1, nodes=nom, hostile=[[name, v]])
                    o = core.checked(check, case)
                    o.classes = list(o.classes) + ["critical-sequence-value"]
                    core.handle(acc, o, case, known)
