"""C11 - protfilter and parsing flags only filter; they never change what is framed.

Domain   clean and garbage streams x all 8 protocol masks x parsing in
         {True, False} x quitonerror in {IGNORE, LOG}.
Oracle   metamorphic: items(protfilter=F) == [it for it in items(protfilter=7)
         if proto(it.raw) & F] with an independent preamble classifier (and
         pyubx2.protocol must agree with it on every yielded raw); with
         parsing=False, over a stream of frames their parsers accept, the raw
         sequence is unchanged and every parsed value is None; on any stream
         the parsing=True raws are a subsequence of the parsing=False raws.
"""

import io

from hypothesis import strategies as st

from vp import core
from vp.gen import streams
from vp.props import streamlib as S

PROP = "C11"
LEVEL = "exploration"
TECHNIQUE = ("property-based testing (Hypothesis) with metamorphic relations between reader runs "
             "under different protfilter / parsing settings")
RULE = ("case = (stream, msgmode/validate options) evaluated under all 8 masks and both parsing "
        "settings; non-trivial = the stream holds at least 2 protocols and some mask removes at "
        "least one item; distinct by digest of (stream bytes, options)")
ASSUMPTIONS = [
    "the all-protocols run (protfilter=7) of the same options is the reference",
    "streams on which a run raises (dependency defects, C08) are skipped and counted",
]


def floors(tier):
    return {"clean": 800, "garbage": 800, "nontrivial": 500, "all-accepted": 100,
            "filtered-frame-malformed": 100, "short-reads": 300, "largest-frames": 200,
            "carrier-frame": 800, "source=buffered": 300, "source=file": 150, "source=rawpipe": 100, "source=socket": 150}


def plan(tier, seed):
    return [{"part": i} for i in range(16)]


def run(data, opts):
    import logging

    core.log_off()
    try:
        bursts = opts.get("_bursts")
        stream = S.TrackingStream(data, bursts) if bursts else S.make_source(data, opts.get("_source") or "bytesio")
        o = {k: v for k, v in opts.items() if not k.startswith("_")}
        return S.read_all(stream, o, handler=S.handler_returning(len(data) + o.get("protfilter", 7)) if o["quitonerror"] == 1 else None,
                          limit=4 * len(data) + 50)
    finally:
        S.close_sources()
        core.log_on()


def is_subsequence(xs, ys):
    it = iter(ys)
    return all(any(x == y for y in it) for x in xs)


def check(case) -> core.Out:
    import pyubx2

    items, opts = case["items"], dict(case["opts"])
    data = streams.stream_bytes(items)
    clean = case["clean"]
    out = core.Out(classes=["clean" if clean else "garbage"] + (["short-reads"] if opts.get("_bursts") else [])
                   + ([f"source={opts['_source'].split(':')[0]}"] if opts.get("_source") and not opts.get("_bursts") else []),
                   dig=core.digest((data, sorted((k, repr(v)) for k, v in opts.items()))))
    try:
        ref, exc = run(data, dict(opts, protfilter=7, parsing=True if len(data) % 2 else 1))
    except S.HarnessHang:
        out.classes = ["skipped:hang(C08)"]
        return out
    if exc is not None:
        if S.is_protocol_error(exc):
            # errors are not raised in these configurations; if a masked run of the
            # same stream goes through, the mask changed more than the selection
            for F in (1, 2, 4, 3, 5, 6):
                try:
                    _g, e2 = run(data, dict(opts, protfilter=F, parsing=True))
                except S.HarnessHang:
                    continue
                if e2 is None:
                    out.viol.append((f"{PROP}|mask|raise-differs",
                                     f"all-protocols run raised {exc!r} but protfilter={F} reads the same stream "
                                     f"to the end; stream {data[:50].hex()} ({len(data)} bytes)"))
                    return out
        out.classes = ["skipped:reference-run-raises(C08)"]
        return out
    protos = {S.proto_of(r) for r, _ in ref}
    removed = False
    n = 0
    for raw, _p in ref:
        mine = S.proto_of(raw)
        try:
            theirs = pyubx2.protocol(raw)
        except Exception as err:  # noqa
            theirs = f"raises {type(err).__name__}"
        if mine != theirs:
            out.viol.append((f"{PROP}|protocol-disagrees", f"protocol({raw[:8].hex()}) = {theirs}, classifier {mine}"))
            return out
    # the 8 masks, and masks that carry further bits (an application sharing the word with
    # flags of its own): only the three protocol bits decide
    for F in list(range(8)) + [8, 8 | (len(data) % 8), 64 | (1 << (len(data) % 3)), 0xF8 | ((len(data) // 3) % 8)]:
        n += 1
        try:
            got, exc = run(data, dict(opts, protfilter=F, parsing=True))
        except S.HarnessHang:
            out.viol.append((f"{PROP}|hang|mask={F}", f"mask {F} run did not terminate on {data[:40].hex()}"))
            continue
        want = [(r, p) for r, p in ref if S.proto_of(r) & F]
        if len(want) < len(ref):
            removed = True
        if exc is not None:
            if not S.is_protocol_error(exc):
                continue  # foreign exception from a dependency parser: C08's business
            out.viol.append((f"{PROP}|mask|raises:{type(exc).__name__}", f"mask {F}: {exc!r} on {data[:40].hex()}"))
        elif not S.same_items(got, want):
            out.viol.append((f"{PROP}|mask|items-differ",
                             f"protfilter={F}: {len(got)} items {[g[0][:6].hex() for g in got][:6]}, expected "
                             f"{len(want)} {[w[0][:6].hex() for w in want][:6]}; stream {data[:50].hex()} "
                             f"({S.opts_label(opts)})"))
    # parsing=False
    for F in (7, 2, 5):
        n += 1
        try:
            # (the flag as False, or as the equal integer 0, for alternate masks)
            raws_np, exc = run(data, dict(opts, protfilter=F, parsing=False if (F + len(data)) % 2 else 0))
        except S.HarnessHang:
            out.viol.append((f"{PROP}|hang|parsing=False", f"parsing=False run did not terminate on {data[:40].hex()}"))
            continue
        if exc is not None:
            out.viol.append((f"{PROP}|noparse|raises:{type(exc).__name__}", f"{exc!r} on {data[:40].hex()}"))
            continue
        if any(p is not None for _r, p in raws_np):
            out.viol.append((f"{PROP}|noparse|parsed-not-none", f"parsing=False yielded a parsed object; stream {data[:40].hex()}"))
        want = [r for r, _p in ref if S.proto_of(r) & F]
        got = [r for r, _p in raws_np]
        if not is_subsequence(want, got):
            out.viol.append((f"{PROP}|noparse|framing-changed",
                             f"parsing=True raws are not a subsequence of parsing=False raws (mask {F}); "
                             f"stream {data[:50].hex()}"))
        # (with a source that returns short reads a frame can be abandoned half way and
        #  its remaining bytes rescanned, so only the subsequence relation applies there)
        if clean and case.get("all_accepted") and not opts.get("_bursts") and got != want:
            out.viol.append((f"{PROP}|noparse|raws-differ",
                             f"all frames accepted, yet parsing=False gives {len(got)} raws vs {len(want)} (mask {F}); "
                             f"stream {data[:50].hex()}"))
    out.n = n
    out.nontrivial = len(protos - {0}) >= 2 and removed
    if out.nontrivial:
        out.classes.append("nontrivial")
    if case.get("all_accepted"):
        out.classes.append("all-accepted")
    if any(i["p"] == "frag" or i["tag"] in ("badck", "badcrc", "empty", "tiny") for i in items):
        out.classes.append("filtered-frame-malformed")
    out.sample = {"stream": data[:48], "len": len(data), "opts": opts, "items_all_protocols": len(ref)}
    return out


OPTS = st.fixed_dictionaries({
    "msgmode": st.sampled_from([0, 0, 0, 3, 1]),
    "validate": st.sampled_from([1, 1, 0]),
    "parsebitfield": st.just(1),
    "quitonerror": st.sampled_from([0, 1]),
    # a source that hands out the data in bursts (reads may come back short), or not
    "_bursts": st.one_of(st.none(), st.none(), st.lists(st.integers(1, 60), min_size=1, max_size=20)),
    # what the bytes sit behind: BytesIO, a buffered reader (has peek()), a real file, a raw pipe
    "_source": st.sampled_from([None, None, "buffered:16", "buffered:8192", "file", "rawpipe", "socket:plain"]),
})


def run_shard(spec, ctx, acc):
    known = set(ctx["known"])
    quick = ctx["tier"] == "quick"

    def mk_clean(t):
        items, opts = t
        ok = all(S.direct_parse(bytes(i["b"]), opts)[0] == "ok" for i in items if i["p"] != "noise")
        return {"kind": "filter", "items": items, "opts": opts, "clean": True, "all_accepted": ok}

    # frames of every protocol at the upper end of what their length fields express,
    # each followed by frames of the other protocols (deterministic, not left to chance)
    import hashlib

    corp = streams.corpus()
    tail = [streams.item("nmea", corp["nmea"][spec["part"] % len(corp["nmea"])], "good"),
            streams.item("rtcm", corp["rtcm"][spec["part"] % len(corp["rtcm"])], "good"),
            streams.item("ubx", corp["ubx"][spec["part"] % len(corp["ubx"])], "good")]
    sizes = [32766, 32767, 32768, 32769, 40000, 65533, 65534, 65535]
    n = sizes[spec["part"] % len(sizes)]
    body = hashlib.shake_256(bytes([spec["part"]])).digest(n)
    bigs = [streams.item("ubx", S.codec.ubx_frame(b"\x04", b"\x02", body), "len>=256"),
            streams.item("ubx", S.codec.ubx_frame(b"\x04", b"\x02", body)[:-1] + b"\x00", "badck"),
            streams.item("rtcm", S.codec.rtcm_frame(bytes([0xFF, 0xF0]) + body[:1021]), "big"),
            streams.item("nmea", S.codec.nmea_frame("GNTXT,01,01,02," + "A" * (n % 3000)), "huge")]
    for big in bigs:
        for qe in (0, 1):
            for val in (1, 0):
                case = {"kind": "filter", "items": tail[:1] + [big] + tail, "clean": True, "all_accepted": False,
                        "opts": {"msgmode": 0, "validate": val, "parsebitfield": 1, "quitonerror": qe, "_bursts": None}}
                o = core.checked(check, case)
                o.classes = list(o.classes) + ["largest-frames"]
                core.handle(acc, o, case, known)
    # a frame of one protocol carrying a complete frame of another, after noise / directly
    # after a frame, behind every kind of source (deterministic)
    ub, nm, rt = corp["ubx"][spec["part"] % len(corp["ubx"])], corp["nmea"][(spec["part"] * 7) % len(corp["nmea"])], \
        corp["rtcm"][(spec["part"] * 5) % len(corp["rtcm"])]
    carriers = [streams.item("ubx", S.codec.ubx_frame(b"\x04", b"\x02", b"rx: " + nm), "carrier"),
                streams.item("ubx", S.codec.ubx_frame(b"\x04", b"\x04", rt), "carrier"),
                streams.item("rtcm", S.codec.rtcm_frame(bytes([0xFF, 0xF0]) + ub), "carrier"),
                streams.item("rtcm", S.codec.rtcm_frame(bytes([0xFE, 0x80]) + nm), "carrier")]
    # ... and the same carriers damaged (checksum / CRC wrong): rejected as a unit, whatever the mask
    carriers += [streams.item(c["p"], bytes(c["b"])[:-1] + bytes([bytes(c["b"])[-1] ^ 0x55]), "badck") for c in carriers[:4]]
    if b"\n" not in ub and b"\r" not in ub:
        carriers.append(streams.item("nmea", b"$GNTXT,01,01,02," + ub + b"*00\r\n", "carrier"))  # (checksum wrong: rejected as a unit)
    for car in carriers:
        for lead in (b"", b"\x00\x01", b"\r\n"):
            for source in (None, "buffered:16", "buffered:8192", "file", "rawpipe", "socket:plain"):
                items = ([streams.item("noise", lead, "noise")] if lead else []) + [car] + tail
                case = {"kind": "filter", "items": items, "clean": True, "all_accepted": False,
                        "opts": {"msgmode": 0, "validate": 1, "parsebitfield": 1, "quitonerror": spec["part"] % 2,
                                 "_bursts": None, "_source": source}}
                o = core.checked(check, case)
                o.classes = list(o.classes) + ["carrier-frame"]
                core.handle(acc, o, case, known)
    clean = st.tuples(streams.clean_streams(2, 6), OPTS).map(mk_clean)
    garb = st.tuples(streams.garbage_streams(8), OPTS).map(
        lambda t: {"kind": "filter", "items": t[0], "opts": t[1], "clean": False})
    core.hyp_search(acc, clean, check, seed=core.derive(ctx["seed"], PROP, "c", spec["part"]),
                    max_examples=70 if quick else 1500, known=known, rounds=3)
    core.hyp_search(acc, garb, check, seed=core.derive(ctx["seed"], PROP, "g", spec["part"]),
                    max_examples=70 if quick else 1500, known=known, rounds=3)
