"""Shared runner infrastructure: seeds, sharding, accumulation, known findings,
replay files, evidence.  Nothing in here knows about a particular property."""

from __future__ import annotations

import collections
import contextlib
import hashlib
import json
import math
import multiprocessing
import os
import subprocess
import sys
import time
import traceback
import zlib

VERIF = os.path.dirname(os.path.dirname(os.path.abspath(__file__)))
REPO_SRC = os.environ.get("VP_REPO_SRC", "/repo/src")
DEPS = os.path.join(VERIF, ".deps")
OUT = os.environ.get("VP_OUT_DIR", os.path.join(VERIF, "out"))
EVIDENCE = os.environ.get("VP_EVIDENCE_DIR", os.path.join(VERIF, "evidence"))  # (mutation runs only)
KNOWN_FILE = os.path.join(VERIF, "known_findings.json")
REGRESS = os.path.join(VERIF, "regress")
WHEELS = "/opt/veriftools/wheels"
NPROC = int(os.environ.get("VP_NPROC", "16"))


class HarnessError(Exception):
    """A fault of the verification machinery itself (exit 2, never VIOLATION)."""


# --------------------------------------------------------------------------
# process bootstrap
# --------------------------------------------------------------------------
def bootstrap(argv):
    """Pin hashing, put the working tree first on sys.path, make sure the
    third-party test libraries are importable (installing them offline from the
    wheelhouse into /verif/.deps when they are not)."""
    if os.environ.get("PYTHONHASHSEED") != "0" or os.environ.get("PYUBX2_VERIF") != "1":
        env = dict(os.environ)
        env["PYTHONHASHSEED"] = "0"
        env["PYUBX2_VERIF"] = "1"
        env["PYTHONDONTWRITEBYTECODE"] = "1"
        os.chdir(VERIF)
        os.execve(sys.executable, [sys.executable, "-m", "vp.run", *argv], env)
    setup_paths()
    ensure_deps(("hypothesis",))


def setup_paths():
    if REPO_SRC in sys.path:
        sys.path.remove(REPO_SRC)
    sys.path.insert(0, REPO_SRC)
    if DEPS not in sys.path:
        sys.path.append(DEPS)


def ensure_deps(pkgs):
    missing = []
    for p in pkgs:
        try:
            __import__(p)
        except ImportError:
            missing.append(p)
    if not missing:
        return
    os.makedirs(DEPS, exist_ok=True)
    cmd = [
        sys.executable, "-m", "pip", "install", "--quiet", "--no-index",
        "--find-links", WHEELS, "--target", DEPS, *missing,
    ]
    r = subprocess.run(cmd, capture_output=True, text=True)
    if r.returncode != 0:
        raise HarnessError(f"cannot install {missing}: {r.stderr[-400:]}")
    import importlib

    importlib.invalidate_caches()
    for p in missing:
        __import__(p)


# --------------------------------------------------------------------------
# seeds / digests / json
# --------------------------------------------------------------------------
def derive(seed, *parts) -> int:
    s = ":".join(str(p) for p in (seed, *parts))
    return zlib.crc32(s.encode())


def srepr(v, n=60):
    """repr() that survives integers beyond the str-conversion digit limit."""
    if isinstance(v, int) and not isinstance(v, bool) and v.bit_length() > 4000:
        return f"<int of {v.bit_length()} bits, {'negative' if v < 0 else 'positive'}>"
    try:
        return repr(v)[:n]
    except Exception as err:  # noqa
        return f"<repr raised {type(err).__name__}>"


def digest(obj) -> int:
    if not isinstance(obj, (bytes, bytearray)):
        obj = repr(jenc(obj)).encode()
    return int.from_bytes(hashlib.blake2b(obj, digest_size=8).digest(), "big")


def jenc(o):
    """JSON-able encoding that keeps bytes, tuples and non-finite floats."""
    if isinstance(o, bytes):
        return {"$b": o.hex()}
    if isinstance(o, bytearray):
        return {"$ba": bytes(o).hex()}
    if isinstance(o, memoryview):
        return {"$mv": [o.format, list(o.shape), o.tobytes().hex()]}
    if isinstance(o, int) and not isinstance(o, bool) and o.bit_length() > 4000:
        return {"$i": hex(o)}  # beyond the int <-> str digit limit
    if isinstance(o, bool) or o is None or isinstance(o, (int, str)):
        return o
    if isinstance(o, float):
        if math.isfinite(o) and float(repr(o)) == o and not (o == 0 and math.copysign(1, o) < 0):
            return o
        return {"$f": o.hex()}
    if isinstance(o, tuple):
        return {"$t": [jenc(x) for x in o]}
    if isinstance(o, (list, set, frozenset)):
        return [jenc(x) for x in o]
    if isinstance(o, dict):
        if all(isinstance(k, str) for k in o):
            return {k: jenc(v) for k, v in o.items()}
        return {"$d": [[jenc(k), jenc(v)] for k, v in o.items()]}
    return {"$r": repr(o)}


def jdec(o):
    if isinstance(o, list):
        return [jdec(x) for x in o]
    if isinstance(o, dict):
        if len(o) == 1:
            (k, v), = o.items()
            if k == "$b":
                return bytes.fromhex(v)
            if k == "$ba":
                return bytearray.fromhex(v)
            if k == "$mv":
                mv = memoryview(bytes.fromhex(v[2]))
                return mv.cast(v[0], v[1]) if (v[0] != "B" or len(v[1]) != 1) else mv
            if k == "$f":
                return float.fromhex(v)
            if k == "$i":
                return int(v, 16)
            if k == "$t":
                return tuple(jdec(x) for x in v)
            if k == "$d":
                return {jdec(a): jdec(b) for a, b in v}
            if k == "$r":
                return v
        return {k: jdec(v) for k, v in o.items()}
    return o


# --------------------------------------------------------------------------
# accumulation of results
# --------------------------------------------------------------------------
class Out:
    """Outcome of checking one case."""

    __slots__ = ("viol", "classes", "nontrivial", "dig", "sample", "n", "nt", "counts", "replay_case")

    def __init__(self, viol=None, classes=(), nontrivial=False, dig=None, sample=None, n=1, nt=None,
                 counts=None):
        self.replay_case = None  # case to store in the replay file instead of the generated one
        self.n = n  # evaluations this case stands for (enumerations inside a case)
        self.nt = nt  # distinct non-trivial sub-cases enumerated inside this case
        self.counts = counts  # {class: count} for sub-cases
        self.viol = viol or []  # list of (key, detail)
        self.classes = classes
        self.nontrivial = nontrivial
        self.dig = dig
        self.sample = sample


class Acc:
    MAXS = 6

    def __init__(self):
        self.evaluations = 0
        self.nontrivial = set()
        self.nontrivial_extra = 0  # distinct by construction (enumerations)
        self.classes = collections.Counter()
        self.samples = []
        self._sample_classes = set()
        self.violations = []
        self.known_hits = collections.Counter()
        self.skipped = collections.Counter()
        self.errors = []
        self.extra = {}

    def record(self, out: Out):
        self.evaluations += out.n
        for c in out.classes:
            self.classes[c] += 1
        if out.counts:
            self.classes.update(out.counts)
        if out.nt is not None:
            # sub-cases are distinct by construction within one case; count them
            # only the first time this case (by digest) is seen
            if out.dig is None or out.dig not in self.nontrivial:
                self.nontrivial_extra += out.nt
            if out.dig is not None:
                self.nontrivial.add(out.dig)
        elif out.nontrivial:
            if out.dig is None:
                self.nontrivial_extra += 1
            else:
                self.nontrivial.add(out.dig)
        if out.sample is not None and out.nontrivial and len(self.samples) < self.MAXS:
            ck = tuple(out.classes)
            if ck not in self._sample_classes:
                self._sample_classes.add(ck)
                self.samples.append(jenc(out.sample))

    def to_dict(self):
        return {
            "evaluations": self.evaluations,
            "nontrivial": self.nontrivial,
            "nontrivial_extra": self.nontrivial_extra,
            "classes": dict(self.classes),
            "samples": self.samples,
            "violations": self.violations,
            "known_hits": dict(self.known_hits),
            "skipped": dict(self.skipped),
            "errors": self.errors,
            "extra": self.extra,
        }

    def merge_dict(self, d):
        self.evaluations += d["evaluations"]
        self.nontrivial |= d["nontrivial"]
        self.nontrivial_extra += d["nontrivial_extra"]
        self.classes.update(d["classes"])
        for s in d["samples"]:
            if len(self.samples) < 10:
                self.samples.append(s)
        self.violations.extend(d["violations"])
        self.known_hits.update(d["known_hits"])
        self.skipped.update(d["skipped"])
        self.errors.extend(d["errors"])
        for k, v in d["extra"].items():
            if isinstance(v, (int, float)) and isinstance(self.extra.get(k, 0), (int, float)):
                self.extra[k] = self.extra.get(k, 0) + v
            elif isinstance(v, list):
                self.extra.setdefault(k, [])
                for x in v:
                    if x not in self.extra[k]:
                        self.extra[k].append(x)
            elif isinstance(v, dict):
                cur = self.extra.setdefault(k, {})
                for kk, vv in v.items():
                    if isinstance(vv, (int, float)):
                        cur[kk] = cur.get(kk, 0) + vv
                    else:
                        cur[kk] = vv
            else:
                self.extra[k] = v


class _Violated(Exception):
    pass


class _ShrinkBudgetSpent(BaseException):
    """Raised from inside the test function once the shrink budget is used up.
    Not an Exception, so Hypothesis does not take it for a failing example: it
    unwinds the engine, and the best failing example seen so far is kept."""


def handle(acc: Acc, out: Out, case, known, found=()):
    """Record one directly-checked (non-Hypothesis) case; returns True when it
    produced a violation that is neither a known finding nor already found."""
    acc.record(out)
    new = False
    for k, d in out.viol:
        if k in known:
            acc.known_hits[k] += 1
        elif k not in found:
            new = True
            if not any(v["key"] == k for v in acc.violations):
                acc.violations.append({"key": k, "case": jenc(out.replay_case or case), "detail": d})
    return new


MAX_VIOL_PER_SHARD = int(os.environ.get("VP_MAX_VIOL_PER_SHARD", "3"))
SHRINK_BUDGET_S = float(os.environ.get("VP_SHRINK_BUDGET_S", "8"))


# --------------------------------------------------------------------------
# interpreter environments: the properties do not depend on them
# --------------------------------------------------------------------------
ENVS = ("warn-error", "warn-always", "log-debug", "log-quiet", "decimal-ctx", "tz-dst")
CURRENT_ENV = [None]
_LOGBUF = []


@contextlib.contextmanager
def environment(name):
    """Run a case under a non-default interpreter state that an application may
    legitimately have set up: warnings promoted to errors / always shown, DEBUG
    logging enabled for the three packages (records go to a memory handler), logging
    disabled altogether, a
    coarse decimal context with another rounding mode, a process time zone with
    daylight saving.  Everything is restored afterwards."""
    import logging

    prev = CURRENT_ENV[0]
    CURRENT_ENV[0] = name
    try:
        if name in ("warn-error", "warn-always"):
            import warnings

            with warnings.catch_warnings():
                warnings.simplefilter("error" if name == "warn-error" else "always")
                yield
        elif name == "log-debug":
            class Mem(logging.Handler):
                def emit(self, record):
                    try:
                        _LOGBUF.append(record.getMessage()[:80])
                    except Exception as err:  # noqa - formatting a record must not fail either
                        _LOGBUF.append(f"<unformattable record: {err!r}>")
                    del _LOGBUF[:-20]

            h = Mem(level=logging.DEBUG)
            saved = []
            dis = logging.root.manager.disable
            logging.disable(logging.NOTSET)
            for nm in ("pyubx2", "pynmeagps", "pyrtcm"):
                lg = logging.getLogger(nm)
                saved.append((lg, lg.level, lg.propagate))
                lg.setLevel(logging.DEBUG)
                lg.addHandler(h)
                lg.propagate = False
            try:
                yield
            finally:
                for lg, lvl, prop in saved:
                    lg.removeHandler(h)
                    lg.setLevel(lvl)
                    lg.propagate = prop
                logging.disable(dis)
        elif name == "log-quiet":
            # the application has switched logging off altogether
            dis = logging.root.manager.disable
            logging.disable(logging.CRITICAL)
            try:
                yield
            finally:
                logging.disable(dis)
        elif name == "decimal-ctx":
            import decimal

            with decimal.localcontext() as ctx:
                ctx.prec = 6
                ctx.rounding = decimal.ROUND_DOWN
                yield
        elif name == "tz-dst":
            import time as _t

            old = os.environ.get("TZ")
            os.environ["TZ"] = "EST5EDT,M3.2.0,M11.1.0"
            _t.tzset()
            try:
                yield
            finally:
                if old is None:
                    os.environ.pop("TZ", None)
                else:
                    os.environ["TZ"] = old
                _t.tzset()
        else:
            yield
    finally:
        CURRENT_ENV[0] = prev


def log_off():
    """Silence the packages' loggers (ERR_LOG reports would reach stderr) - except
    in the log-debug environment, whose point is that logging is on."""
    import logging

    if CURRENT_ENV[0] not in ("log-debug", "log-quiet"):
        logging.disable(logging.CRITICAL)


def log_on():
    import logging

    if CURRENT_ENV[0] not in ("log-debug", "log-quiet"):
        logging.disable(logging.NOTSET)


def env_pick(case, one_in=4):
    """Deterministic choice of an environment for a directly enumerated case."""
    h = digest(case)
    if h % one_in:
        return None
    return ENVS[(h // one_in) % len(ENVS)]


def checked(check, case, env="pick"):
    """check(case) under an environment; the replay case carries the choice."""
    if env == "pick":
        env = env_pick(case)
    if env is None:
        return check(case)
    wrapped = {"$env": env, "$case": case}
    out = run_with_history(wrapped, check)
    if out.replay_case is None:
        out.replay_case = wrapped
    return out


def run_with_history(case, check):
    """Cases of the form {"$history": [ops], "$case": case}: the operations run
    first (their outcome is ignored), then the case is checked - the result must
    not depend on what the process did before."""
    if isinstance(case, dict) and "$env" in case:
        with environment(case["$env"]):
            out = run_with_history(case["$case"], check)
        out.classes = list(out.classes) + [f"env={case['$env']}"]
        return out
    if isinstance(case, dict) and "$history" in case:
        from vp.props import c13

        for op in case["$history"]:
            c13.run_op(op)
        out = check(case["$case"])
        if case["$history"]:
            out.classes = list(out.classes) + ["after-history"]
        return out
    return check(case)


def hyp_search(acc: Acc, strategy, check, *, seed, max_examples, known, rounds=3, shrink=True, history=None, envs=True):
    """Drive `check` (case -> Out) with Hypothesis.  Violations whose key is a
    known finding are tallied and the case passes; the first unlisted key fails
    the example, is shrunk and recorded; the search then restarts with that key
    excluded so that several root causes can be enumerated in one run."""
    import hypothesis
    from hypothesis import HealthCheck, Phase, Verbosity, given, settings

    if history is not None:
        # `history(case)` -> strategy of operation lists that run before the case
        from hypothesis import strategies as _st

        inner_check = check
        strategy = strategy.flatmap(lambda c: _st.one_of(
            _st.just(c), _st.just(c), history(c).map(lambda ops, c=c: {"$history": ops, "$case": c})))

        def check(case):  # noqa: F811
            return run_with_history(case, inner_check)

    if envs and not os.environ.get("VP_NO_ENVS"):
        from hypothesis import strategies as _st

        env_inner = check
        strategy = strategy.flatmap(lambda c: _st.one_of(
            _st.just(c), _st.just(c), _st.sampled_from(ENVS).map(lambda e, c=c: {"$env": e, "$case": c})))

        def check(case):  # noqa: F811
            return run_with_history(case, env_inner)

    found = set()
    for rnd in range(rounds):
        if len(acc.violations) >= MAX_VIOL_PER_SHARD:
            # a tree that already produced several distinct violations in this
            # shard is broken; do not spend the budget enumerating more
            acc.skipped["search-skipped-after-violations"] += 1
            return found
        holder = {}
        phases = [Phase.generate, Phase.target]
        if shrink:
            phases.append(Phase.shrink)

        @hypothesis.seed(derive(seed, "round", rnd))
        @settings(
            max_examples=max_examples,
            database=None,
            deadline=None,
            derandomize=False,
            report_multiple_bugs=False,
            print_blob=False,
            verbosity=Verbosity.quiet,
            phases=phases,
            suppress_health_check=[HealthCheck.too_slow, HealthCheck.data_too_large,
                                   HealthCheck.large_base_example],
        )
        @given(strategy)
        def _t(case):
            if "t0" in holder and time.monotonic() - holder["t0"] > SHRINK_BUDGET_S:
                raise _ShrinkBudgetSpent()
            out = check(case)
            acc.record(out)
            new = []
            for k, d in out.viol:
                if k in known:
                    acc.known_hits[k] += 1
                elif k not in found:
                    new.append((k, d))
            if new:
                holder["last"] = (out.replay_case or case, new)
                holder.setdefault("t0", time.monotonic())
                raise _Violated(new[0][0])

        try:
            _t()
        except (_Violated, _ShrinkBudgetSpent):
            case, new = holder["last"]
            k, d = new[0]
            found.add(k)
            acc.violations.append({"key": k, "case": jenc(case), "detail": d})
            continue
        except hypothesis.errors.HypothesisException as err:  # Flaky, health check ...
            if "last" in holder and type(err).__name__ in ("Flaky", "FlakyFailure", "FlakyReplay"):
                # a violation was observed but did not recur when Hypothesis
                # replayed the example: the outcome depends on what ran before
                # in this process.  The observation stands (it is not shrunk).
                case, new = holder["last"]
                k, d = new[0]
                found.add(k)
                acc.violations.append({"key": k, "case": jenc(case),
                                       "detail": d + " [observed once; not reproducible on in-process replay]"})
                continue
            acc.errors.append(f"hypothesis: {type(err).__name__}: {err}")
            break
        break
    return found


# --------------------------------------------------------------------------
# parallel execution
# --------------------------------------------------------------------------
def _worker(job):
    modname, spec, ctx = job
    try:
        import faulthandler
        import signal

        faulthandler.register(signal.SIGUSR1, all_threads=True)  # kill -USR1 <pid>: where is it?
    except (ImportError, AttributeError, ValueError, RuntimeError):
        pass
    try:
        setup_paths()
        mod = __import__(modname, fromlist=["x"])
        acc = Acc()
        mod.run_shard(spec, ctx, acc)
        d = acc.to_dict()
        d["shard"] = spec.get("name")
        return d
    except BaseException:  # noqa - report, never die silently
        return {"fatal": traceback.format_exc(), "shard": spec.get("name")}


def run_shards(modname, specs, ctx, nproc=None):
    jobs = [(modname, s, ctx) for s in specs]
    nproc = min(nproc or NPROC, max(1, len(jobs)))
    if nproc == 1 or os.environ.get("VP_SERIAL"):
        return [_worker(j) for j in jobs]
    mp = multiprocessing.get_context("fork")
    budget = int(os.environ.get("VP_WATCHDOG_S", "900" if ctx.get("tier") == "quick" else "14400"))
    with mp.Pool(nproc, maxtasksperchild=1) as pool:
        res = [pool.apply_async(_worker, (j,)) for j in jobs]
        out = []
        deadline = time.monotonic() + budget
        for j, r in zip(jobs, res):
            try:
                out.append(r.get(timeout=max(1, deadline - time.monotonic())))
            except multiprocessing.TimeoutError:
                # a watchdog expiry is a harness problem (inconclusive), never a violation
                out.append({"fatal": f"watchdog: shard did not finish within {budget}s",
                            "shard": j[1].get("name")})
        pool.terminate()
        return out


# --------------------------------------------------------------------------
# known findings
# --------------------------------------------------------------------------
def load_known(prop):
    if not os.path.exists(KNOWN_FILE):
        return []
    with open(KNOWN_FILE) as fh:
        data = json.load(fh)
    return [e for e in data.get("findings", []) if e.get("property") == prop]


def open_keys(entries):
    return {e["key"] for e in entries if e.get("status") == "open"}


# --------------------------------------------------------------------------
# replay files and evidence
# --------------------------------------------------------------------------
def write_replay(prop, viol):
    d = os.path.join(OUT, "replays", prop)
    os.makedirs(d, exist_ok=True)
    name = hashlib.blake2b(viol["key"].encode(), digest_size=6).hexdigest() + ".json"
    path = os.path.join(d, name)
    with open(path, "w") as fh:
        json.dump({"property": prop, "key": viol["key"], "case": viol["case"],
                   "detail": jenc(viol.get("detail"))}, fh, indent=1, sort_keys=True)
    return path


def write_evidence(prop, tier, seed, level, coverage, wall, violations, assumptions):
    os.makedirs(EVIDENCE, exist_ok=True)
    ev = {
        "property_id": prop,
        "tier": tier,
        "seed": int(seed),
        "level": level,
        "coverage": coverage,
        "assumptions": assumptions,
        "wall_s": round(wall, 2),
        "violations": violations,
    }
    tmp = os.path.join(EVIDENCE, f".{prop}.json.tmp")
    with open(tmp, "w") as fh:
        json.dump(ev, fh, indent=1, sort_keys=True)
    os.replace(tmp, os.path.join(EVIDENCE, f"{prop}.json"))


def now():
    return time.monotonic()
