"""Reference interpreter of pyubx2's payload-definition grammar (README,
section "Extensibility", and the parsing rules stated in the README):

  name: T                      plain attribute of type T
  name: [T, scale]             scaled attribute (value = raw * scale)
  name: (Xnnn, {flag: Tmmm})   bitfield of nnn bytes; flags take mmm *bits*
                               each, LSB first; `reserved*` flags not exposed
  name: (count, {...})         repeating group; count = int | name of a
                               preceding attribute/flag | "None" (variable by
                               size: as many as fit in the remaining payload)
  members of groups carry _NN per nesting level (two digits, more when needed)

A *layout instance* is a concrete tree with chosen repeat counts and raw values:
  ["f", name, type, scale|None, raw]
  ["b", name, xtype, [[flag, ftype, value], ...], spare_high_bits_value]
  ["g", groupname, [[node, ...], ...]]          one node list per repeat
Both the payload bytes and the attributes a conforming parser must expose are
computed from the chosen raws, never by decoding bytes.
"""

from fractions import Fraction
import math

from vp.ref import codec


def is_bitfield_def(v):
    return (isinstance(v, tuple) and len(v) == 2 and isinstance(v[0], str)
            and len(v[0]) == 4 and v[0][0] == "X" and v[0][1:].isdigit()
            and isinstance(v[1], dict))


def is_group_def(v):
    return isinstance(v, tuple) and len(v) == 2 and isinstance(v[1], dict) and not is_bitfield_def(v)


def suffix(idx):
    return "".join(f"_{i:02d}" for i in idx)


# ------------------------------------------------------------------ sizes
def node_size_def(v):
    """Byte size of one definition entry with groups counted once for int
    counts and zero for counted / variable groups (= minimum size)."""
    if is_bitfield_def(v):
        return codec.tsize(v[0])
    if is_group_def(v):
        n, sub = v
        one = sum(node_size_def(x) for x in sub.values())
        return one * n if isinstance(n, int) else 0
    t = v[0] if isinstance(v, list) else v
    if t == "CH":
        return 0
    return codec.tsize(t)


def group_unit_size(sub):
    return sum(node_size_def(x) for x in sub.values())


def min_size(defn):
    return sum(node_size_def(v) for v in defn.values())


def count_names(defn):
    """Names used as repeat counts by groups anywhere in the definition."""
    out = []

    def walk(d):
        for v in d.values():
            if is_group_def(v):
                if isinstance(v[0], str) and v[0] != "None":
                    out.append(v[0])
                walk(v[1])

    walk(defn)
    return out


# ------------------------------------------------------------------ encode
def encode(nodes) -> bytes:
    out = bytearray()
    for nd in nodes:
        k = nd[0]
        if k == "f":
            out += codec.enc_raw(nd[2], nd[4])
        elif k == "b":
            nbytes = codec.tsize(nd[2])
            word = 0
            off = 0
            for _fname, ftyp, fval in nd[3]:
                w = codec.tsize(ftyp)
                assert 0 <= fval < (1 << w)
                word |= fval << off
                off += w
            assert off <= 8 * nbytes
            word |= nd[4] << off
            assert word < (1 << (8 * nbytes))
            out += word.to_bytes(nbytes, "little")
        elif k == "g":
            for it in nd[2]:
                out += encode(it)
        else:
            raise ValueError(k)
    return bytes(out)


# ------------------------------------------------------------------ expect
def expect(nodes, bf, idx=()):
    """Ordered [(attribute name, spec)], spec = ("val", type, value) or
    ("scaled", type, raw, scale)."""
    out = []
    sfx = suffix(idx)
    for nd in nodes:
        k = nd[0]
        if k == "f":
            _, name, typ, scale, raw = nd
            if name.startswith("_HP"):
                # documented special case (release notes 1.2.x): the scaled value of
                # _HPx is added to the earlier attribute x and _HPx is not exposed
                tgt = name[3:] + sfx
                for i, (n0, sp) in enumerate(out):
                    if n0 == tgt:
                        terms = list(sp[2]) if sp[0] == "sum" else (
                            [(sp[2], sp[3])] if sp[0] == "scaled" else [(sp[2], 1)])
                        terms.append((raw, 1 if scale is None else scale))
                        out[i] = (n0, ("sum", typ, terms))
                        break
                else:
                    out.append((name + sfx, ("scaled", typ, raw, 1 if scale is None else scale)))
            elif scale is None:
                out.append((name + sfx, ("val", typ, codec.value_of(typ, raw))))
            else:
                out.append((name + sfx, ("scaled", typ, raw, scale)))
        elif k == "b":
            _, name, xtyp, flags, _spare = nd
            if bf:
                for fname, ftyp, fval in flags:
                    if not fname.startswith("reserved"):
                        out.append((fname + sfx, ("val", "U", fval)))
            else:
                out.append((name + sfx, ("val", xtyp, encode([nd]))))
        elif k == "g":
            for i, it in enumerate(nd[2]):
                out.extend(expect(it, bf, idx + (i + 1,)))
    return out


def scaled_exact(raw, scale):
    return Fraction(raw) * Fraction(scale)


def _ulp(x):
    return math.ulp(abs(x)) if math.isfinite(x) else 0.0


def value_matches(actual, spec, decimals_tol=Fraction(1, 2 * 10**12)):
    """Does the attribute value reported by the library equal the prescribed
    decoding?  Scaled values may be rounded to 12 decimals (documented constant
    of the library) and carry float rounding of one product."""
    kind = spec[0]
    if kind == "val":
        _, typ, want = spec
        if typ and typ[0] == "R":
            return isinstance(actual, float) and codec.float_same(actual, want)
        if isinstance(want, bool) or isinstance(actual, bool):
            return False
        if isinstance(want, int):
            return isinstance(actual, int) and actual == want
        return type(actual) is type(want) and actual == want
    if kind == "sum":
        if isinstance(actual, bool) or not isinstance(actual, (int, float)) or not math.isfinite(actual):
            return False
        want = sum(Fraction(r) * Fraction(sc) for r, sc in spec[2])
        slack = Fraction(8 * max(_ulp(float(want)), _ulp(float(actual))))
        return abs(Fraction(actual) - want) <= (len(spec[2]) + 1) * decimals_tol + slack
    _, typ, raw, scale = spec
    if isinstance(actual, bool) or not isinstance(actual, (int, float)):
        return False
    if isinstance(actual, float) and not math.isfinite(actual):
        return False
    want = scaled_exact(raw, scale)
    slack = Fraction(4 * max(_ulp(float(want)), _ulp(float(actual))))
    return abs(Fraction(actual) - want) <= decimals_tol + slack


def describe(spec):
    if spec[0] == "val":
        return repr(spec[2])
    if spec[0] == "sum":
        return " + ".join(f"{r}*{sc}" for r, sc in spec[2])
    return f"{spec[2]}*{spec[3]}"


# ------------------------------------------------------------------ counts
def leaf_lookup(nodes, name):
    """Top-level attribute or flag raw value by definition name (for counts
    and variant discriminators)."""
    for nd in nodes:
        if nd[0] == "f" and nd[1] == name:
            return nd[4]
        if nd[0] == "b":
            for fname, _t, fval in nd[3]:
                if fname == name:
                    return fval
    return None


# ------------------------------------------------------------------ audit
RESERVED_NAMES_HINT = "reserved"


def audit(defn, forbidden_names=()):
    """Grammar audit of one payload definition (C16).  Returns a list of
    (code, message).  `forbidden_names` = attribute names of the message class
    itself that a field must not shadow."""
    issues = []

    def err(code, msg):
        issues.append((code, msg))

    if not isinstance(defn, dict):
        return [("not-a-dict", repr(type(defn)))]

    none_groups = []
    order = []  # top-level names in payload order, as (name, kind, type)

    def check_type(t, where, flag=False):
        if not isinstance(t, str) or not codec.is_type(t):
            err("bad-type", f"{where}: {t!r}")
            return False
        if t == "CH" and flag:
            err("bad-type", f"{where}: CH flag")
            return False
        return True

    def walk(d, depth, names_bf1, names_bf0, seen_top, in_none):
        items = list(d.items())
        for pos, (k, v) in enumerate(items):
            if not isinstance(k, str) or not k:
                err("bad-name", f"{k!r}")
                continue
            if is_bitfield_def(v):
                xt, flags = v
                if not check_type(xt, k):
                    continue
                total = 0
                for fk, ft in flags.items():
                    if not isinstance(ft, str) or not codec.TYPE_RE.match(ft) or int(ft[1:]) < 1:
                        err("bad-type", f"flag {k}.{fk}: {ft!r}")
                        continue
                    total += int(ft[1:])
                    names_bf1.append((fk, depth, fk.startswith("reserved")))
                    if depth == 0:
                        seen_top.append((fk, "flag", ft))
                if total > 8 * codec.tsize(xt):
                    err("flags-overflow", f"{k}: {total} bits in {xt}")
                names_bf0.append((k, depth, False))
            elif is_group_def(v):
                n, sub = v
                if in_none:
                    err("group-in-none-group", k)
                if isinstance(n, bool) or not isinstance(n, (int, str)):
                    err("bad-count", f"{k}: {n!r}")
                elif isinstance(n, int):
                    if n < 0:
                        err("bad-count", f"{k}: {n}")
                elif n == "None":
                    none_groups.append((k, depth, pos == len(items) - 1))
                else:
                    hit = [x for x in seen_top if x[0] == n]
                    if not hit:
                        err("count-not-earlier", f"{k}: count {n!r} is not a preceding attribute")
                    else:
                        _, kind, t = hit[0]
                        if kind == "flag":
                            # sized by a bit flag: not an attribute when bitfields are left as bytes
                            err("count-is-bit-flag", f"{k}: count {n!r} is a bit flag, not an integer attribute")
                        if kind == "attr" and (isinstance(t, list) or t[0] not in "UEL" + "I"):
                            err("count-not-integer", f"{k}: count {n!r} has type {t!r}")
                walk(sub, depth + 1, names_bf1, names_bf0, seen_top, in_none or n == "None")
            elif isinstance(v, list):
                if len(v) != 2 or not isinstance(v[1], (int, float)) or isinstance(v[1], bool):
                    err("bad-scaled", f"{k}: {v!r}")
                    continue
                if not check_type(v[0], k):
                    continue
                if v[0][0] not in codec.INT_LETTERS + "R":
                    err("bad-scaled", f"{k}: scaled {v[0]}")
                if not (math.isfinite(v[1]) and v[1] != 0):
                    err("bad-scaled", f"{k}: scale {v[1]!r}")
                names_bf1.append((k, depth, False))
                names_bf0.append((k, depth, False))
                if depth == 0:
                    seen_top.append((k, "attr", v))
            else:
                if not check_type(v, k):
                    continue
                if v == "CH" and (depth != 0 or len(items) != 1):
                    err("ch-not-alone", k)
                names_bf1.append((k, depth, False))
                names_bf0.append((k, depth, False))
                if depth == 0:
                    seen_top.append((k, "attr", v))

    n1, n0, top = [], [], []
    walk(defn, 0, n1, n0, top, False)

    for label, names in (("parsebitfield=1", n1), ("parsebitfield=0", n0)):
        seen = {}
        for nm, depth, resflag in names:
            # Members of groups are exposed as name_NN (one suffix per nesting
            # level), so two fields collide exactly when they share name and
            # nesting depth - whichever groups they sit in.  Two reserved *bit
            # flags* of one name are harmless: reserved flags are never exposed
            # and never reported by the parser; a reserved flag that shares its
            # name with an attribute is not (the attribute's keyword value would
            # be read into the bitfield).
            if (nm, depth) in seen and not (resflag and seen[(nm, depth)]):
                err("duplicate-name", f"{nm!r} at depth {depth} ({label})")
            seen[(nm, depth)] = resflag and seen.get((nm, depth), True)
    for nm, depth, _r in set(n1) | set(n0):
        if depth == 0 and nm in forbidden_names:
            err("shadows-message-attribute", nm)
        if nm.startswith("_"):
            # documented exception: _HP<name of an attribute of the same message>
            if not (nm.startswith("_HP") and any(o[0] == nm[3:] and o[1] == depth for o in n1)):
                err("private-name", nm)
    if len(none_groups) > 1:
        err("multiple-none-groups", ",".join(g[0] for g in none_groups))
    for g, depth, last in none_groups:
        if depth != 0 or not last:
            err("none-group-not-last", g)
    # de-duplicate, keep order
    out = []
    for i in issues:
        if i not in out:
            out.append(i)
    return out


FATAL_CODES = {"bad-type", "bad-scaled", "bad-count", "not-a-dict", "bad-name",
               "count-not-earlier", "count-not-integer", "flags-overflow"}


def audit_fatal(defn):
    """True when the definition cannot be interpreted at all by this reference
    (that is C16's business; the other properties skip and count it)."""
    return any(code in FATAL_CODES for code, _ in audit(defn))


# ------------------------------------------------------------------ spans
def leaf_spans(nodes, idx=(), off=0, out=None):
    """[(attribute-or-bitfield name with suffix, start, end)] in payload order."""
    if out is None:
        out = []
    sfx = suffix(idx)
    for nd in nodes:
        if nd[0] == "f":
            n = len(codec.enc_raw(nd[2], nd[4]))
            out.append((nd[1] + sfx, off, off + n))
            off += n
        elif nd[0] == "b":
            n = codec.tsize(nd[2])
            out.append((nd[1] + sfx, off, off + n))
            off += n
        else:
            for i, it in enumerate(nd[2]):
                off = leaf_spans(it, idx + (i + 1,), off, out)[1]
    return out, off


def refill(nodes, payload: bytes, off=0):
    """The same instance structure with every leaf value read back from
    `payload` (which must have the length encode(nodes) has; counts are taken
    from the structure, not from the bytes).  -> (new nodes, offset after)."""
    out = []
    for nd in nodes:
        if nd[0] == "f":
            n = len(codec.enc_raw(nd[2], nd[4]))
            out.append(["f", nd[1], nd[2], nd[3], codec.dec_bytes(nd[2], payload[off:off + n])])
            off += n
        elif nd[0] == "b":
            n = codec.tsize(nd[2])
            word = int.from_bytes(payload[off:off + n], "little")
            off += n
            fl, bit = [], 0
            for fname, ftyp, _v in nd[3]:
                w = codec.tsize(ftyp)
                fl.append([fname, ftyp, (word >> bit) & ((1 << w) - 1)])
                bit += w
            out.append(["b", nd[1], nd[2], fl, word >> bit])
        else:
            its = []
            for it in nd[2]:
                sub, off = refill(it, payload, off)
                its.append(sub)
            out.append(["g", nd[1], its])
    return out, off


def first_diff_field(nodes, a: bytes, b: bytes):
    """Name of the first field whose bytes differ between payloads a and b."""
    spans, total = leaf_spans(nodes)
    for name, s, e in spans:
        if a[s:e] != b[s:e]:
            return name
    if len(a) != len(b):
        return "<length>"
    return "<none>"


def zero_raw(t):
    if t == "CH":
        return b""
    k = t[0]
    if k in codec.INT_LETTERS or k == "R":
        return 0
    if k in "XC":
        return b"\x00" * codec.tsize(t)
    return [0] * codec.tsize(t)


def zero_nodes(d):
    """All-zero nodes for one repeat of a group definition (nested fixed groups
    expanded, counted / variable groups empty)."""
    out = []
    for k, v in d.items():
        if is_bitfield_def(v):
            out.append(["b", k, v[0], [[f, t, 0] for f, t in v[1].items()], 0])
        elif is_group_def(v):
            n = v[0] if isinstance(v[0], int) else 0
            out.append(["g", k, [zero_nodes(v[1]) for _ in range(n)]])
        else:
            t, scale = (v[0], v[1]) if isinstance(v, list) else (v, None)
            out.append(["f", k, t, scale, zero_raw(t)])
    return out


def restrict_full(defn, nodes, keep, bf, count_fn):
    """restrict() + group re-sizing following the definition `defn`."""
    def walk(d, ns, idx, top):
        out = []
        if top is None:
            top = out
        sfx = suffix(idx)
        for (k, v), nd in zip(d.items(), ns):
            if nd[0] == "f":
                out.append(list(nd) if nd[1] + sfx in keep else [nd[0], nd[1], nd[2], nd[3], zero_raw(nd[2])])
            elif nd[0] == "b":
                if bf:
                    out.append(["b", nd[1], nd[2],
                                [[f, t, (val if (f + sfx) in keep and not f.startswith("reserved") else 0)]
                                 for f, t, val in nd[3]], 0])
                elif nd[1] + sfx in keep:
                    out.append(["b", nd[1], nd[2], [list(f) for f in nd[3]], nd[4]])
                else:
                    out.append(["b", nd[1], nd[2], [[f, t, 0] for f, t, _ in nd[3]], 0])
            else:
                n, sub = v
                if isinstance(n, int):
                    cnt = n
                elif n == "None":
                    cnt = 0  # variable-by-size groups cannot be built from keywords
                else:
                    cnt = count_fn(top, n, int(leaf_lookup(top, n) or 0))
                its = []
                for i in range(cnt):
                    # repeats beyond those of the instance (a count that grew) are
                    # all-zero: nothing was supplied for them
                    src = nd[2][i] if i < len(nd[2]) else zero_nodes(sub)
                    its.append(walk(sub, src, idx + (i + 1,), top))
                out.append(["g", nd[1], its])
        return out

    return walk(defn, nodes, (), None)
