"""Enumeration of the (mode, class/ID, definition) triples that the library's
*tables* declare, with the documented variant-selection constraint for each.

The tables are data = specification; only their contents are read here."""

from vp.ref import variants as V
from vp.ref import grammar as G


class Target:
    __slots__ = ("mode", "clsid", "defname", "defn", "identity", "must", "must_not", "kwrule",
                 "mga_type")

    def __init__(self, mode, clsid, defname, defn, identity, must=None, must_not=(), kwrule=None,
                 mga_type=None):
        self.mode = mode
        self.clsid = clsid
        self.defname = defname
        self.defn = defn
        self.identity = identity
        self.must = must  # predicate that the payload must satisfy (or None)
        self.must_not = tuple(must_not)  # predicates that must not hold
        self.kwrule = kwrule
        self.mga_type = mga_type

    @property
    def label(self):
        return f"{V.MODE_NAMES[self.mode]}|{self.defname}"

    def selects(self, payload: bytes) -> bool:
        if self.mga_type is not None and payload[0:1] != bytes([self.mga_type]):
            return False
        if self.must is not None and not V.pred_holds(self.must, payload):
            return False
        return not any(V.pred_holds(p, payload) for p in self.must_not)

    def is_cfgval(self):
        return self.clsid[0:1] == b"\x06" and (
            (self.clsid[1:2] == b"\x8b" and self.mode == V.GET)
            or (self.clsid[1:2] == b"\x8a" and self.mode == V.SET))


def tables():
    import pyubx2

    return {V.GET: pyubx2.UBX_PAYLOADS_GET, V.SET: pyubx2.UBX_PAYLOADS_SET,
            V.POLL: pyubx2.UBX_PAYLOADS_POLL}


def build():
    """-> (targets, unreachable {mode: [names]}, unmodelled [(mode, clsid)])"""
    import pyubx2
    from pyubx2.ubxvariants import VARIANTS

    tabs = tables()
    targets, unmodelled = [], []
    used = {m: set() for m in tabs}
    for key, name in pyubx2.UBX_MSGIDS.items():
        for mode, tab in tabs.items():
            if len(key) == 3:
                if name in tab and V.is_mga_typed(key[0:2]):
                    targets.append(Target(mode, key[0:2], name, tab[name], name, mga_type=key[2],
                                          kwrule=("kw_eq", "type", key[2])))
                    used[mode].add(name)
                continue
            libvar = (key in VARIANTS.get(mode, {}))
            rule = V.PAYLOAD_RULES.get((mode, key))
            if libvar and rule is None:
                if V.is_mga_typed(key):
                    continue  # handled through the 3-byte keys
                unmodelled.append((mode, key))
                continue
            if libvar and rule is not None:
                prev = []
                for pred, defname in rule:
                    if defname in tab:
                        kw = V.KEYWORD_RULES.get((mode, key), {}).get(defname)
                        targets.append(Target(mode, key, defname, tab[defname], name,
                                              must=None if pred[0] == "else" else pred,
                                              must_not=list(prev), kwrule=kw))
                        used[mode].add(defname)
                    if pred[0] != "else":
                        prev.append(pred)
                continue
            if V.is_mga_typed(key):
                continue
            if name in tab:
                targets.append(Target(mode, key, name, tab[name], name))
                used[mode].add(name)
    unreachable = {V.MODE_NAMES[m]: sorted(set(tabs[m]) - used[m]) for m in tabs}
    return targets, unreachable, unmodelled


def has_none_group(defn):
    return any(G.is_group_def(v) and v[0] == "None" for v in defn.values())


def has_ch(defn):
    return any(v == "CH" for v in defn.values())


def _top_offsets(defn):
    """[(name, type, offset)] of the top-level plain attributes that sit at a
    fixed offset (i.e. before any counted / variable group)."""
    out, off = [], 0
    for k, v in defn.items():
        if G.is_group_def(v) and not isinstance(v[0], int):
            break
        if not G.is_bitfield_def(v) and not G.is_group_def(v):
            t = v[0] if isinstance(v, list) else v
            if t == "CH":
                break
            out.append((k, t, off))
        off += G.node_size_def(v)
    return out


def forced_for(target):
    """Translate the byte-valued selection constraints of a target into forced
    raw values of top-level one-byte attributes.  Returns None if some
    constraint cannot be expressed that way (then cases are filtered)."""
    preds = []
    if target.mga_type is not None:
        preds.append((("byte", 0, target.mga_type), True))
    if target.must is not None and target.must[0] == "byte":
        preds.append((target.must, True))
    for p in target.must_not:
        if p[0] == "byte":
            preds.append((p, False))
    forced = {}
    offs = _top_offsets(target.defn)
    for (_, i, v), positive in preds:
        hit = [(k, t) for k, t, o in offs if o == i and t[0] in "UEL" and int(t[1:]) == 1]
        if not hit:
            return None
        name = hit[0][0]
        forced[name] = v if positive else ("ne", v)
    return forced


def forced_for_kw(target):
    """forced_for() plus the constraint the *keyword* selection rule puts on
    the discriminating attribute.  None when the two cannot both hold."""
    forced = forced_for(target)
    if forced is None:
        return None
    forced = dict(forced)
    r = target.kwrule
    if r is not None and r[0] in ("kw_eq", "kw_ne"):
        new = r[2] if r[0] == "kw_eq" else ("ne", r[2])
        old = forced.get(r[1])
        if old is not None and old != new:
            if isinstance(old, tuple) and not isinstance(new, tuple) and new != old[1]:
                pass  # "== new" implies "!= old"
            elif isinstance(new, tuple) and not isinstance(old, tuple) and old != new[1]:
                new = old
            else:
                return None
        forced[r[1]] = new
    return forced
