"""Independent scalar codec, bit packing and checksums, written from the UBX /
RTCM3 / NMEA specifications - not from pyubx2's helpers.

Type strings are the library's *data* format (a letter and a 3-digit size):
  U/E/L unsigned little-endian integer, I two's complement, R IEEE-754,
  X/C raw bytes, A list of unsigned bytes, "CH" variable-length text.
"""

import re
import struct

TYPE_RE = re.compile(r"^([ACEILRUX])(\d{3})$")
INT_LETTERS = "EILU"


def is_type(t):
    return t == "CH" or (isinstance(t, str) and TYPE_RE.match(t) is not None
                         and int(t[1:]) > 0 and (t[0] != "R" or int(t[1:]) in (4, 8)))


def tletter(t):
    return t[0]


def tsize(t):
    """Size in bytes (for bit-flag types: in bits).  None for CH."""
    if t == "CH":
        return None
    return int(t[1:4])


def int_range(t):
    n = 8 * tsize(t)
    if t[0] == "I":
        return -(1 << (n - 1)), (1 << (n - 1)) - 1
    return 0, (1 << n) - 1


def enc_raw(t, raw):
    """raw -> bytes.  raw: int (EILU), int bit pattern (R), bytes (X, C),
    list of ints (A), bytes (CH)."""
    k = t[0]
    if t == "CH":
        return bytes(raw)
    n = tsize(t)
    if k in "ELU":
        return int(raw).to_bytes(n, "little", signed=False)
    if k == "I":
        return (int(raw) & ((1 << (8 * n)) - 1)).to_bytes(n, "little")
    if k == "R":
        return int(raw).to_bytes(n, "little")
    if k in "XC":
        assert len(raw) == n
        return bytes(raw)
    if k == "A":
        assert len(raw) == n
        return bytes(raw)
    raise ValueError(t)


def value_of(t, raw):
    """The attribute value a conforming parser reports for an unscaled field."""
    k = t[0]
    if t == "CH":
        return bytes(raw).decode("utf-8", "backslashreplace")
    if k in "ELU":
        return int(raw)
    if k == "I":
        return int(raw)
    if k == "R":
        n = tsize(t)
        return struct.unpack("<f" if n == 4 else "<d", int(raw).to_bytes(n, "little"))[0]
    if k in "XC":
        return bytes(raw)
    if k == "A":
        return list(raw)
    raise ValueError(t)


def dec_bytes(t, b):
    """bytes -> raw (inverse of enc_raw), independent decoder."""
    k = t[0]
    if t == "CH":
        return bytes(b)
    n = tsize(t)
    assert len(b) == n, (t, len(b))
    if k in "ELU":
        return sum(x << (8 * i) for i, x in enumerate(b))
    if k == "I":
        u = sum(x << (8 * i) for i, x in enumerate(b))
        return u - (1 << (8 * n)) if u >> (8 * n - 1) else u
    if k == "R":
        return sum(x << (8 * i) for i, x in enumerate(b))
    if k in "XC":
        return bytes(b)
    if k == "A":
        return list(b)
    raise ValueError(t)


def fletcher8(content: bytes) -> bytes:
    """8-bit Fletcher checksum as in the UBX interface description."""
    a = b = 0
    for x in content:
        a = (a + x) % 256
        b = (b + a) % 256
    return bytes([a, b])


def ubx_frame(cls: bytes, mid: bytes, payload: bytes) -> bytes:
    body = cls + mid + len(payload).to_bytes(2, "little") + payload
    return b"\xb5\x62" + body + fletcher8(body)


def ubx_wellformed(x: bytes) -> bool:
    return (
        len(x) >= 8
        and x[0:2] == b"\xb5\x62"
        and x[4] + 256 * x[5] == len(x) - 8
        and x[-2:] == fletcher8(x[2:-2])
    )


def crc24q(data: bytes) -> int:
    """CRC-24Q (poly 0x1864CFB), bitwise, as used by RTCM 10403."""
    crc = 0
    for byte in data:
        crc ^= byte << 16
        for _ in range(8):
            crc <<= 1
            if crc & 0x1000000:
                crc ^= 0x1864CFB
    return crc & 0xFFFFFF


def rtcm_frame(payload: bytes, good_crc=True) -> bytes:
    n = len(payload)
    assert n < 1024
    body = bytes([0xD3, n >> 8, n & 0xFF]) + payload
    c = crc24q(body)
    if not good_crc:
        c ^= 0x5A5A5A
    return body + c.to_bytes(3, "big")


def nmea_cksum(body: bytes) -> bytes:
    c = 0
    for x in body:
        c ^= x
    return b"%02X" % c


def nmea_frame(body: str, good=True) -> bytes:
    """body = 'GNGLL,....' (between $ and *)."""
    b = body.encode("ascii", "replace")
    ck = nmea_cksum(b)
    if not good:
        ck = b"%02X" % ((int(ck, 16) + 1) % 256)
    return b"$" + b + b"*" + ck + b"\r\n"


def float_same(a, b):
    """NaN-aware, sign-of-zero-aware equality of two floats."""
    import math

    if isinstance(a, float) and isinstance(b, float):
        if math.isnan(a) or math.isnan(b):
            return math.isnan(a) and math.isnan(b)
        return a == b and math.copysign(1, a) == math.copysign(1, b)
    return a == b and type(a) is type(b)


def fletcher_twin(payload: bytes, i: int, d: int) -> bytes:
    """A different payload of the same length with the same Fletcher-8 checksum:
    adding (+d, -2d, +d) to three consecutive bytes leaves both running sums
    unchanged."""
    b = bytearray(payload)
    i %= max(1, len(b) - 2)
    d = 1 + d % 255
    b[i] = (b[i] + d) % 256
    b[i + 1] = (b[i + 1] - 2 * d) % 256
    b[i + 2] = (b[i + 2] + d) % 256
    return bytes(b)


def ubx_frame_with_checksum(cls: bytes, mid: bytes, payload: bytes, target: bytes) -> bytes:
    """Frame whose payload is `payload` + two solved bytes such that the
    Fletcher-8 checksum equals `target` (2 bytes)."""
    n = len(payload) + 2
    head = cls + mid + n.to_bytes(2, "little") + payload
    a0 = b0 = 0
    for x in head:
        a0 = (a0 + x) % 256
        b0 = (b0 + a0) % 256
    a, b = target[0], target[1]
    a1 = (b - a - b0) % 256
    x = (a1 - a0) % 256
    y = (a - a1) % 256
    f = ubx_frame(cls, mid, payload + bytes([x, y]))
    assert f[-2:] == bytes(target), (f[-2:], target)
    return f


def zero_state_payload(cls: bytes, mid: bytes, n: int, block: int, fill: int = 0x5A) -> bytes:
    """n-byte payload such that the Fletcher-8 running sums over class, ID, length
    and the payload so far are (0, 0) after every `block` payload bytes."""
    import hashlib

    rnd = hashlib.shake_256(bytes([fill & 0xFF, block & 0xFF])).digest(n)
    p = bytearray(rnd)
    a = b = 0
    for x in cls + mid + n.to_bytes(2, "little"):
        a = (a + x) % 256
        b = (b + a) % 256
    for i in range(n):
        if (i + 2) % block == 0 and i + 1 < n:
            # solve bytes i, i+1 so that the state after byte i+1 is (0, 0)
            a1 = (0 - 0 - b) % 256          # need b + a1 + 0 == 0  ->  a1 = -b ; then a2 = 0
            p[i] = (a1 - a) % 256
            p[i + 1] = (0 - a1) % 256
        a = (a + p[i]) % 256
        b = (b + a) % 256
    return bytes(p)


MAGIC_CHECKSUMS = [b"\r\n", b"\n\r", b"\x00\x00", b"\xff\xff", b"\xb5\x62", b"$G", b"\xd3\x00", b"\n\n", b"*\r"]


def crc32_twin(prefix: bytes, payload: bytes, p: int = 0):
    """A different payload of the same length such that zlib.crc32(prefix + payload) is
    unchanged (CRC-32 is affine over GF(2): flip one bit at byte p and solve the 32
    bits of the last four bytes).  None when the payload is shorter than 5 bytes."""
    import zlib

    n = len(payload)
    if n < 5:
        return None
    p %= n - 4
    total = len(prefix) + n
    zero = zlib.crc32(bytes(total))

    def lin(delta: bytes) -> int:
        return zlib.crc32(delta) ^ zero

    def unit(byte_index, bit):
        d = bytearray(total)
        d[len(prefix) + byte_index] = 1 << bit
        return bytes(d)

    target = lin(unit(p, 0))
    cols = [lin(unit(n - 4 + j // 8, j % 8)) for j in range(32)]
    # solve sum_j y_j * cols[j] == target over GF(2)
    rows = [(sum(((cols[j] >> i) & 1) << j for j in range(32)), (target >> i) & 1) for i in range(32)]
    piv = []
    for col in range(32):
        r = next((k for k in range(len(piv), 32) if (rows[k][0] >> col) & 1), None)
        if r is None:
            continue
        rows[len(piv)], rows[r] = rows[r], rows[len(piv)]
        pr = rows[len(piv)]
        for k in range(32):
            if k != len(piv) and (rows[k][0] >> col) & 1:
                rows[k] = (rows[k][0] ^ pr[0], rows[k][1] ^ pr[1])
        piv.append(col)
    y = 0
    for k, col in enumerate(piv):
        if rows[k][1]:
            y |= 1 << col
    out = bytearray(payload)
    out[p] ^= 1
    for j in range(32):
        if (y >> j) & 1:
            out[n - 4 + j // 8] ^= 1 << (j % 8)
    out = bytes(out)
    if out == payload or zlib.crc32(prefix + out) != zlib.crc32(prefix + payload):
        return None
    return out


def adler_twin(payload: bytes, i: int = 0):
    """A different payload of the same length with the same Adler-32 (and the same
    Fletcher-8) checksum: +1, -2, +1 on three consecutive bytes without any wrap."""
    n = len(payload)
    for k in range(max(0, n - 2)):
        j = (i + k) % (n - 2)
        if payload[j] <= 254 and payload[j + 1] >= 2 and payload[j + 2] <= 254:
            b = bytearray(payload)
            b[j] += 1
            b[j + 1] -= 2
            b[j + 2] += 1
            return bytes(b)
    return None
