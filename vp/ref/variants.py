"""Documented payload-variant selection rules, restated as data.

Source: the docstrings of pyubx2/ubxvariants.py and the README ("a handful of
message types have multiple possible payload variants for the same class, id
and mode").  Each rule gives, for one (mode, class/ID):

  payload route : ordered list of (predicate, definition name)
  keyword route : the discriminating keyword(s)

Predicates:  ("len", n)  payload length == n
             ("byte", i, v)  payload[i] == v
             ("else",)
MGA messages (class 0x13 except MGA-DBD 13 80) are identified by the first
payload byte (`type`) through the 3-byte keys of UBX_MSGIDS.

A (mode, class/ID) found in the library's VARIANTS table but absent here is
*unmodelled*: skipped and counted, never reported.
"""

GET, SET, POLL = 0, 1, 2
MODE_NAMES = {GET: "GET", SET: "SET", POLL: "POLL"}

# (mode, clsid) -> [(predicate, defname)]
PAYLOAD_RULES = {
    (POLL, b"\x06\x31"): [(("len", 1), "CFG-TP5-TPX"), (("else",), "CFG-TP5")],
    (SET, b"\x02\x72"): [(("byte", 0, 0), "RXM-PMP-V0"), (("else",), "RXM-PMP-V1")],
    (SET, b"\x02\x41"): [(("len", 16), "RXM-PMREQ"), (("else",), "RXM-PMREQ-S")],
    (SET, b"\x0d\x15"): [(("len", 1), "TIM-VCOCAL-V0"), (("else",), "TIM-VCOCAL")],
    (SET, b"\x06\x06"): [(("len", 2), "CFG-DAT-NUM"), (("else",), "CFG-DAT")],
    (GET, b"\x0b\x32"): [(("byte", 1, 0xFF), "AID-ALPSRV-SEND"), (("else",), "AID-ALPSRV-REQ")],
    (GET, b"\x02\x72"): [(("byte", 0, 0), "RXM-PMP-V0"), (("else",), "RXM-PMP-V1")],
    (GET, b"\x02\x59"): [(("byte", 1, 1), "RXM-RLM-S"), (("else",), "RXM-RLM-L")],
    (GET, b"\x06\x17"): [(("len", 4), "CFG-NMEAvX"), (("len", 12), "CFG-NMEAv0"),
                          (("else",), "CFG-NMEA")],
    (GET, b"\x01\x60"): [(("len", 20), "NAV-AOPSTATUS-L"), (("else",), "NAV-AOPSTATUS")],
    (GET, b"\x01\x3c"): [(("byte", 0, 0), "NAV-RELPOSNED-V0"), (("else",), "NAV-RELPOSNED")],
    (GET, b"\x27\x09"): [(("byte", 0, 1), "SEC-SIG-V1"), (("else",), "SEC-SIG-V2")],
}

# keyword route: (mode, clsid) -> {defname: how to select it with keywords}
#   ("kw_eq", name, value)   keyword must be supplied with this value
#   ("kw_ne", name, value)   keyword must be supplied with a different value
#   ("kw_present", name)     keyword must be supplied (any value)
#   ("kw_absent", name)      keyword must not be supplied
#   ("payload_only",)        cannot be selected with keywords
KEYWORD_RULES = {
    (POLL, b"\x06\x31"): {"CFG-TP5-TPX": ("kw_present", "tpIdx"), "CFG-TP5": ("payload_only",)},
    (SET, b"\x02\x72"): {"RXM-PMP-V0": ("kw_eq", "version", 0), "RXM-PMP-V1": ("kw_ne", "version", 0)},
    (SET, b"\x02\x41"): {"RXM-PMREQ": ("kw_present", "version"), "RXM-PMREQ-S": ("payload_only",)},
    (SET, b"\x0d\x15"): {"TIM-VCOCAL-V0": ("kw_eq", "type", 0), "TIM-VCOCAL": ("kw_ne", "type", 0)},
    (SET, b"\x06\x06"): {"CFG-DAT-NUM": ("kw_present", "datumNum"), "CFG-DAT": ("kw_absent", "datumNum")},
    (GET, b"\x0b\x32"): {"AID-ALPSRV-SEND": ("kw_eq", "type", 0xFF), "AID-ALPSRV-REQ": ("kw_ne", "type", 0xFF)},
    (GET, b"\x02\x72"): {"RXM-PMP-V0": ("kw_eq", "version", 0), "RXM-PMP-V1": ("kw_ne", "version", 0)},
    (GET, b"\x02\x59"): {"RXM-RLM-S": ("kw_eq", "type", 1), "RXM-RLM-L": ("kw_ne", "type", 1)},
    (GET, b"\x06\x17"): {"CFG-NMEAvX": ("payload_only",), "CFG-NMEAv0": ("payload_only",),
                          "CFG-NMEA": ("payload_only",)},
    (GET, b"\x01\x60"): {"NAV-AOPSTATUS-L": ("payload_only",), "NAV-AOPSTATUS": ("payload_only",)},
    (GET, b"\x01\x3c"): {"NAV-RELPOSNED-V0": ("kw_eq", "version", 0), "NAV-RELPOSNED": ("kw_ne", "version", 0)},
    (GET, b"\x27\x09"): {"SEC-SIG-V1": ("kw_eq", "version", 1), "SEC-SIG-V2": ("kw_ne", "version", 1)},
}


def discriminator_names():
    """Keyword names that any variant selector (or the MGA identity rule) reads."""
    out = {"type"}
    for rules in KEYWORD_RULES.values():
        for r in rules.values():
            if len(r) > 1 and isinstance(r[1], str):
                out.add(r[1])
    return out


def pred_holds(pred, payload: bytes) -> bool:
    if pred[0] == "len":
        return len(payload) == pred[1]
    if pred[0] == "byte":
        return len(payload) > pred[1] and payload[pred[1]] == pred[2]
    return True


def select(mode, clsid, payload):
    """Definition name the documented rule selects, or None when no rule."""
    rule = PAYLOAD_RULES.get((mode, clsid))
    if rule is None:
        return None
    for pred, name in rule:
        if pred_holds(pred, payload):
            return name
    return None


def is_mga_typed(clsid: bytes) -> bool:
    return clsid[0:1] == b"\x13" and clsid[1:2] != b"\x80"
