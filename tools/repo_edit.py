"""Exact-substring edit of a repo file that preserves its line endings.
usage: repo_edit.py FILE <<< JSON [[old,new],...]   (LF in old/new is mapped to the file's EOL)"""
import json, sys
path = sys.argv[1]
data = open(path, "rb").read()
crlf = b"\r\n" in data
for old, new in json.load(sys.stdin):
    o, n = old.encode(), new.encode()
    if crlf:
        o, n = o.replace(b"\n", b"\r\n"), n.replace(b"\n", b"\r\n")
    if data.count(o) != 1:
        sys.exit(f"pattern occurs {data.count(o)} times: {old[:60]!r}")
    data = data.replace(o, n)
open(path, "wb").write(data)
