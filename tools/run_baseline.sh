#!/bin/sh
# run the repository's baseline suite; testNMEA is an unstable/always-failing test not in BASELINE stable_pass
cd /repo && /venv/bin/python -m pytest -q -p no:cacheprovider --timeout=900 --continue-on-collection-errors "$@" 2>&1 | tail -6
