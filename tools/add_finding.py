"""Record a finding in known_findings.json (developer tool, never run by checks).
usage: add_finding.py REPLAY.json open|fixed "<what fails>" [commit]
For 'fixed' the replay is also copied to regress/<prop>/ so that it is replayed on every run."""
import json, os, shutil, sys
VERIF = os.path.dirname(os.path.dirname(os.path.abspath(__file__)))
replay, status, what = sys.argv[1:4]
commit = sys.argv[4] if len(sys.argv) > 4 else None
rec = json.load(open(replay))
path = os.path.join(VERIF, "known_findings.json")
data = json.load(open(path)) if os.path.exists(path) else {"findings": []}
data["findings"] = [e for e in data["findings"] if e["key"] != rec["key"]]
entry = {"property": rec["property"], "key": rec["key"], "status": status, "what": what, "repro": rec["case"]}
if status == "fixed":
    entry["commit"] = commit
    entry["line"] = f"fixed: property={rec['property']} {commit} {what}"
    d = os.path.join(VERIF, "regress", rec["property"])
    os.makedirs(d, exist_ok=True)
    name = rec["key"].replace("|", "_").replace(":", "-").replace("/", "-").replace("*", "x").replace(" ", "")[:80] + ".json"
    json.dump({"property": rec["property"], "key": rec["key"], "case": rec["case"], "note": what},
              open(os.path.join(d, name), "w"), indent=1, sort_keys=True)
else:
    entry["line"] = f"open: property={rec['property']} {what}"
data["findings"].append(entry)
data["findings"].sort(key=lambda e: (e["property"], e["key"]))
json.dump(data, open(path, "w"), indent=1, sort_keys=True)
print("recorded", rec["key"], status)
