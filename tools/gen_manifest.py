"""Regenerate /verif/MANIFEST.json from the property modules that exist.

Run with:  /venv/bin/python tools/gen_manifest.py      (cwd = /verif)
"""

import importlib
import json
import os
import sys

VERIF = os.path.dirname(os.path.dirname(os.path.abspath(__file__)))
sys.path.insert(0, VERIF)
sys.path.insert(0, "/repo/src")

PY = "/venv/bin/python"


def main():
    props = [json.loads(l) for l in open(os.path.join(VERIF, "properties.jsonl"))]
    checks, na = [], []
    for p in props:
        pid = p["id"]
        path = os.path.join(VERIF, "vp", "props", pid.lower() + ".py")
        if not os.path.exists(path):
            na.append({"property_id": pid,
                       "reason": "check not built yet (planned in DESIGN.md section 4; "
                                 "property-based testing applies)"})
            continue
        mod = importlib.import_module(f"vp.props.{pid.lower()}")
        checks.append({
            "property_id": pid,
            "quick_cmd": f"{PY} -m vp.run {pid} --tier quick",
            "thorough_cmd": f"{PY} -m vp.run {pid} --tier thorough",
            "evidence_file": f"/verif/evidence/{pid}.json",
            "replay_cmd_template": f"{PY} -m vp.run {pid} --replay {{path}}",
            "engine": "vp",
            "level_claimed": {
                "category": mod.LEVEL,
                "text": getattr(mod, "LEVEL_TEXT", mod.__doc__.strip().split("\n\n")[0]),
                "design_ref": f"DESIGN.md section 4, {pid}",
            },
            "level_note": " ; ".join(mod.ASSUMPTIONS),
            "technique": mod.TECHNIQUE,
        })
    manifest = {
        "version": 1,
        "setup_cmd": (f"{PY} -m pip install --quiet --no-index --find-links /opt/veriftools/wheels "
                      "--target /verif/.deps hypothesis atheris"),
        "hooks": {
            "guard": "PYUBX2_VERIF",
            "enable": ("no source hooks are needed: every observation point is public API; checks "
                       "import pyubx2 from /repo/src (the working tree) with PYUBX2_VERIF=1 set"),
            "baseline_off_cmd": ("cd /repo && /venv/bin/python -m pytest -ra -q -p no:cacheprovider "
                                 "--timeout=900 --continue-on-collection-errors"),
            "source_commits": [],
            "add_only": True,
        },
        "engines": [
            {"name": "vp", "path": "/verif/vp",
             "serves_properties": [c["property_id"] for c in checks],
             "kind_free_text": ("Hypothesis property-based testing (incl. rule-based state "
                                "machines), exhaustive enumeration of small finite domains over "
                                "16 worker processes, atheris/libFuzzer coverage-guided fuzzing "
                                "in the thorough tier; oracles are independent reference models "
                                "in vp/ref")},
        ],
        "checks": checks,
        "not_applicable": na,
        "notes": ("Exit codes: 0 held, 1 VIOLATION (unlisted), 2 harness error/inconclusive. "
                  "Known findings: /verif/known_findings.json. See DESIGN.md."),
    }
    with open(os.path.join(VERIF, "MANIFEST.json"), "w") as fh:
        json.dump(manifest, fh, indent=1)
    print(f"{len(checks)} checks, {len(na)} not_applicable")


if __name__ == "__main__":
    main()
