#!/bin/sh
# usage: tools/run_all.sh [tier] [seed...]   - runs every registered check, prints one line each
tier=${1:-quick}; shift
seeds=${*:-1}
cd /verif
for sd in $seeds; do
  for p in C01 C02 C03 C04 C05 C06 C07 C08 C09 C10 C11 C12 C13 C14 C15 C16 C17 C18; do
    out=$(VERIF_SEED=$sd /venv/bin/python -m vp.run $p --tier $tier 2>&1); rc=$?
    echo "$p seed=$sd rc=$rc $(echo "$out" | grep -v KNOWN-FINDING | grep "cases," | sed 's/.*: //')"
    if [ $rc -ne 0 ]; then echo "$out" | grep -v KNOWN-FINDING | tail -5; fi
  done
done
