"""Evaluate one seeded change (a patch + a demonstration) against the checks.

usage: tools/seed_eval.py SEED_DIR PROP [--checks C01,C02|all] [--name NAME]

SEED_DIR holds patch.diff, demo.py (and optionally NOTES.md).  The tool
  1. copies /repo (src, tests, pyproject.toml) to a scratch directory, applies the patch,
  2. runs the repository's test-suite on the copy (must still pass; testNMEA deselected),
  3. runs demo.py against the unchanged tree (must exit 0) and the copy (must exit 1),
  4. runs the quick tier of the property's check (or the given checks) against the copy,
  5. prints a verdict and, with --name, stores patch/demo/notes/meta.json in /verif/seeded/NAME/.
The scratch copy is removed afterwards.
"""

import json
import os
import shutil
import subprocess
import sys
import time

VERIF = os.path.dirname(os.path.dirname(os.path.abspath(__file__)))
PY = "/venv/bin/python"
ALL = [f"C{i:02d}" for i in range(1, 19)]


def sh(cmd, **kw):
    return subprocess.run(cmd, capture_output=True, text=True, **kw)


def main():
    args = sys.argv[1:]
    seed_dir, prop = args[0], args[1]
    checks = [prop]
    name = None
    if "--checks" in args:
        v = args[args.index("--checks") + 1]
        checks = ALL if v == "all" else v.split(",")
    if "--name" in args:
        name = args[args.index("--name") + 1]
    patch = os.path.abspath(os.path.join(seed_dir, "patch.diff"))
    demo = os.path.abspath(os.path.join(seed_dir, "demo.py"))
    copy = f"/tmp/vpseed/{os.getpid()}"
    shutil.rmtree(copy, ignore_errors=True)
    os.makedirs(copy)
    meta = {"property": prop, "seed_dir": seed_dir}
    try:
        for d in ("src", "tests"):
            shutil.copytree(os.path.join("/repo", d), os.path.join(copy, d))
        shutil.copy("/repo/pyproject.toml", copy)
        r = sh(["git", "apply", "--whitespace=nowarn", patch], cwd=copy)
        if r.returncode != 0:
            r = sh(["patch", "-p1", "--binary", "-i", patch], cwd=copy)
        meta["applies"] = r.returncode == 0
        if r.returncode != 0:
            print("PATCH DOES NOT APPLY:", r.stderr[-300:], r.stdout[-300:])
            return 2
        env = dict(os.environ, PYTHONPATH=os.path.join(copy, "src"))
        r = sh([PY, "-m", "pytest", "-q", "-p", "no:cacheprovider", "--no-cov", "--deselect",
                "tests/test_stream.py::StreamTest::testNMEA", "tests"], cwd=copy, env=env)
        meta["suite_passes"] = r.returncode == 0
        meta["suite_tail"] = (r.stdout.strip().splitlines() or [""])[-1]
        r0 = sh([PY, demo], env=dict(os.environ, PYTHONPATH="/repo/src"), cwd=os.path.dirname(demo))
        r1 = sh([PY, demo], env=env, cwd=os.path.dirname(demo))
        meta["demo_unchanged_rc"], meta["demo_changed_rc"] = r0.returncode, r1.returncode
        meta["demo_output_changed"] = (r1.stdout + r1.stderr)[-400:]
        meta["checks"] = {}
        for c in checks:
            e2 = dict(os.environ, VP_REPO_SRC=os.path.join(copy, "src"), VERIF_SEED=os.environ.get("SEED_EVAL_SEED", "1"),
                      VP_EVIDENCE_DIR=os.path.join(copy, "_ev"), VP_OUT_DIR=os.path.join(copy, "_out"))
            t0 = time.time()
            r = sh([PY, "-m", "vp.run", c, "--tier", "quick"], cwd=VERIF, env=e2)
            keys = [ln.split("violation key: ")[1] for ln in r.stdout.splitlines() if "violation key: " in ln]
            meta["checks"][c] = {"rc": r.returncode, "keys": keys[:5], "s": round(time.time() - t0, 1)}
            if r.returncode == 2:
                meta["checks"][c]["stderr"] = r.stderr[-300:]
        meta["caught_by"] = [c for c, v in meta["checks"].items() if v["rc"] == 1]
        ok = meta["suite_passes"] and meta["demo_unchanged_rc"] == 0 and meta["demo_changed_rc"] == 1
        meta["valid_seed"] = ok
        print(json.dumps(meta, indent=1))
        if name:
            dest = os.path.join(VERIF, "seeded", name)
            os.makedirs(dest, exist_ok=True)
            if os.path.realpath(os.path.dirname(patch)) != os.path.realpath(dest):
                shutil.copy(patch, os.path.join(dest, "patch.diff"))
                shutil.copy(demo, os.path.join(dest, "demo.py"))
                notes = os.path.join(seed_dir, "NOTES.md")
                if os.path.exists(notes):
                    shutil.copy(notes, os.path.join(dest, "NOTES.md"))
            meta.pop("seed_dir", None)
            meta["what_was_run"] = ("scratch copy of /repo + git apply patch.diff; pytest tests (testNMEA deselected); "
                                    "demo.py against unchanged and changed tree; quick checks with VP_REPO_SRC=<copy>/src")
            json.dump(meta, open(os.path.join(dest, "meta.json"), "w"), indent=1)
        return 0 if ok else 3
    finally:
        shutil.rmtree(copy, ignore_errors=True)


if __name__ == "__main__":
    sys.exit(main())
