"""Re-evaluate stored seeded changes against the current checks, keeping the
annotations (round, initially_missed, why_missed_then) of seeded/<name>/meta.json.

usage: tools/seed_recheck.py NAME [NAME ...] [--why TEXT] [--checks C13,C14]
       tools/seed_recheck.py --all            (every seeded/<name>, 4 at a time)
"""

import json
import os
import subprocess
import sys
from concurrent.futures import ThreadPoolExecutor

VERIF = os.path.dirname(os.path.dirname(os.path.abspath(__file__)))
KEEP = ("round", "initially_missed", "why_missed_then", "note")


def one(name, why=None, checks=None):
    d = os.path.join(VERIF, "seeded", name)
    mp = os.path.join(d, "meta.json")
    old = json.load(open(mp)) if os.path.exists(mp) else {}
    prop = old.get("property") or name.split("-")[0]
    chk = checks or ",".join(sorted(set([prop] + list(old.get("checks", {})))))
    r = subprocess.run(["/venv/bin/python", os.path.join(VERIF, "tools", "seed_eval.py"), d, prop,
                        "--checks", chk, "--name", name], capture_output=True, text=True, cwd=VERIF)
    new = json.load(open(mp))
    for k in KEEP:
        if k in old:
            new[k] = old[k]
    if why:
        new["why_missed_then"] = why
    json.dump(new, open(mp, "w"), indent=1, sort_keys=True)
    return name, new.get("valid_seed"), new.get("caught_by"), {c: (v["rc"], v["s"]) for c, v in new["checks"].items()}, r.returncode


def main():
    args = sys.argv[1:]
    why = checks = None
    if "--why" in args:
        i = args.index("--why")
        why = args[i + 1]
        del args[i:i + 2]
    if "--checks" in args:
        i = args.index("--checks")
        checks = args[i + 1]
        del args[i:i + 2]
    if "--all" in args:
        names = sorted(os.listdir(os.path.join(VERIF, "seeded")),
                       key=lambda n: (n.split("-")[0], int(n.split("-")[1])))
        with ThreadPoolExecutor(3) as ex:
            for res in ex.map(one, names):
                flag = "" if res[2] else "   <<<<<< NOT CAUGHT"
                print(*res, flag, flush=True)
        return 0
    for n in args:
        print(*one(n, why, checks), flush=True)
    return 0


if __name__ == "__main__":
    sys.exit(main())
