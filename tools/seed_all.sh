#!/bin/sh
# evaluate every delivered seed under /tmp/wt/Cxx/seed/{1,2} that has no /verif/seeded/Cxx-n/meta.json yet
cd /verif
for d in /tmp/wt/C*/seed/*; do
  [ -f "$d/patch.diff" ] && [ -f "$d/demo.py" ] || continue
  prop=$(echo $d | sed 's#/tmp/wt/\(C[0-9]*\)/seed/.*#\1#'); n=$(basename $d)
  name="$prop-$((n + ${ROUND_OFFSET:-0}))"
  [ -f "seeded/$name/meta.json" ] && continue
  /venv/bin/python tools/seed_eval.py $d $prop --name $name > /tmp/seed_$name.log 2>&1
  /venv/bin/python - "$name" <<'P'
import json,sys
m=json.load(open(f"/verif/seeded/{sys.argv[1]}/meta.json"))
print(sys.argv[1], "valid=",m.get("valid_seed"), "suite=",m.get("suite_passes"), "demo=",m.get("demo_unchanged_rc"),m.get("demo_changed_rc"), "caught_by=",m.get("caught_by"), {k:(v["rc"],v["keys"][:2]) for k,v in m["checks"].items()})
P
done
